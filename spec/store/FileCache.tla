----------------------------- MODULE FileCache -----------------------------
(***************************************************************************)
(* Implementation-shaped model of klongpy/db/file_cache.py (FileCache):    *)
(* client threads calling get_file / update_file / unload_file and the      *)
(* worker tasks (_load_file / _write_file) they submit to the executor.     *)
(* One action per critical section or file-system step of the code:         *)
(*                                                                         *)
(*   get_file    g_exists  os.path.exists                                   *)
(*               g_size    os.path.getsize, MemoryError check               *)
(*               g_lock    `with file_futures_lock` block (submit / reuse)  *)
(*               g_wait    future.result()                                  *)
(*   update_file u_check   MemoryError check                                *)
(*               u_lock    `with file_futures_lock` block                   *)
(*               u_wait    future.result()                                  *)
(*   unload_file n_lock    `with file_futures_lock` block                   *)
(*   _load_file  l_read    open(...,'rb').read()                            *)
(*               l_lock    update_file_futures_and_memory + task result     *)
(*   _write_file w_open    os.makedirs + open(...,'wb')  (truncates)        *)
(*               w_write   write + fsync + close                            *)
(*               w_lock    update_file_futures_and_memory + task result     *)
(*                                                                         *)
(* The sequential configuration (one client) is the model behind C16, the   *)
(* concurrent one (2-3 clients) is the model behind C18.  Deviations of     *)
(* the code from the ideal are modelled as what the code does: entries of   *)
(* in-flight loads and writes carry a byte claim that has not been added to *)
(* the total yet, _unload_file subtracts it anyway, stale heap entries are  *)
(* left behind by update_file, assertions and KeyErrors inside the locked   *)
(* sections fail the task.                                                  *)
(***************************************************************************)
EXTENDS Integers, Sequences, FiniteSets, TLC

CONSTANTS Clients,        \* set of client thread names
          Files,          \* set of file names
          Values,         \* set of positive integers: content ids
          SizeOf,         \* [Values -> Nat] size in bytes (also the memory usage) of a content
          Configs,        \* set of records [maxmem, progs, disk]: the configurations explored;
                          \*   maxmem: cache limit in bytes
                          \*   progs:  [Clients -> Seq(op)], op = [k |-> "get"|"upd"|"unl", f |-> file, v |-> value]
                          \*   disk:   [Files -> Values \cup {Absent}] initial file contents
          ExcludeKnown    \* BOOLEAN: do not explore the histories listed in known_findings.json (C18)

Absent == -1              \* the file does not exist
Trunc  == 0               \* the file exists and is empty (just opened with 'wb')
Size(x) == IF x = Trunc \/ x = Absent THEN 0 ELSE SizeOf[x]

MaxFut == 8
NoEntry == [present |-> FALSE, w |-> FALSE, bytes |-> 0, fut |-> 0]

VARIABLES cf,       \* the configuration of this behaviour (chosen in Init, never changed)
          disk,     \* [Files -> content]            kernel-visible file contents
          ff,       \* [Files -> entry]              file_futures
          heap,     \* set of <<stamp, file>>        file_access_times
          mem,      \* current_memory_usage
          clk,      \* logical time.time_ns()
          futs,     \* [1..MaxFut -> [st, val]]      futures: st in pending / ok / err
          nfut,     \* number of futures created
          task,     \* [1..MaxFut -> [kind, f, v, pc, data]] worker task behind each future
          pc,       \* [Clients -> label]
          opi,      \* [Clients -> index of current op in Progs]
          loc,      \* [Clients -> [fut, applied, claim]]
          hist,     \* sequence of completed/ongoing operations with invocation/response stamps
          evc       \* event counter (real-time order of invocations and responses)

vars == <<cf, disk, ff, heap, mem, clk, futs, nfut, task, pc, opi, loc, hist, evc>>

MaxMem == cf.maxmem
Progs == cf.progs
InitDisk == cf.disk
Op(c) == Progs[c][opi[c]]
NoTask == [kind |-> "none", f |-> "", v |-> 0, pc |-> "done", data |-> 0]

Init ==
  /\ cf \in Configs
  /\ disk = cf.disk
  /\ ff = [f \in Files |-> NoEntry]
  /\ heap = {}
  /\ mem = 0
  /\ clk = 1
  /\ futs = [i \in 1..MaxFut |-> [st |-> "none", val |-> 0]]
  /\ nfut = 0
  /\ task = [i \in 1..MaxFut |-> NoTask]
  /\ pc = [c \in Clients |-> "idle"]
  /\ opi = [c \in Clients |-> 1]
  /\ loc = [c \in Clients |-> [fut |-> 0, applied |-> FALSE, claim |-> 0, h |-> 0]]
  /\ hist = <<>>
  /\ evc = 1

-----------------------------------------------------------------------------
(* helpers operating on the triple S = [ff, heap, mem, clk]                 *)

HeapWithout(h, f) == {e \in h : e[2] # f}
Oldest(h) == CHOOSE e \in h : \A o \in h : e[1] <= o[1]

\* _unload_file
Unload(S, f) == IF S.ff[f].present
                THEN [S EXCEPT !.mem = @ - S.ff[f].bytes, !.ff[f] = NoEntry]
                ELSE S

\* update_file_access_time
Touch(S, f) == [S EXCEPT !.heap = HeapWithout(@, f) \cup {<<S.clk, f>>}, !.clk = @ + 1]

\* recover_memory(claim): <<S', can_cache, status>>; status "keyerror" when a stale heap entry
\* names a file that has no entry (self.file_futures[oldest_file] raises KeyError)
RECURSIVE Recover(_, _, _)
Recover(S, claim, aside) ==
  IF claim > MaxMem THEN <<S, FALSE, "ok">>        \* processed contents larger than the limit: not cacheable
  ELSE IF S.mem + claim > MaxMem /\ S.heap # {}
  THEN LET e == Oldest(S.heap)
           S1 == [S EXCEPT !.heap = @ \ {e}]
       IN  IF ~S.ff[e[2]].present THEN <<S1, FALSE, "keyerror">>
           ELSE IF S.ff[e[2]].w THEN Recover(S1, claim, aside \cup {e})
           ELSE Recover(Unload(S1, e[2]), claim, aside)
  ELSE LET S2 == [S EXCEPT !.heap = @ \cup aside]
       IN  <<S2, S2.mem + claim <= MaxMem, "ok">>

\* update_file_futures_and_memory(file, usage): <<S', status>>
UFM(S, f, usage) ==
  LET r == Recover(S, usage, {}) IN
  IF r[3] # "ok" THEN <<r[1], r[3]>>
  ELSE IF ~r[1].ff[f].present THEN <<r[1], "assert">>          \* assert info is not None
  ELSE IF r[2]
       THEN LET T == Touch(r[1], f)
            IN  <<[T EXCEPT !.mem = @ + usage, !.ff[f] = [present |-> TRUE, w |-> FALSE, bytes |-> usage,
                                                         fut |-> r[1].ff[f].fut]], "ok">>
       ELSE <<[r[1] EXCEPT !.ff[f] = NoEntry, !.heap = HeapWithout(@, f)], "ok">>   \* no entry and no LRU record

St == [ff |-> ff, heap |-> heap, mem |-> mem, clk |-> clk]
SetSt(S) == ff' = S.ff /\ heap' = S.heap /\ mem' = S.mem /\ clk' = S.clk

-----------------------------------------------------------------------------------------------------------------------------------------------------
(* known findings (C18): an unload - or an update, for loads - that takes the lock while a     *)
(* worker task on the same file has not yet run its own locked section.  With ExcludeKnown    *)
(* these histories are not explored; they are demonstrated separately against the real code.  *)
InFlight(f, kinds) == \E i \in 1..MaxFut : task[i].kind \in kinds /\ task[i].f = f /\ task[i].pc # "done"

KnownULock(c) == InFlight(Op(c).f, {"load"})
KnownNLock(c) == InFlight(Op(c).f, {"load", "write"})

-----
(* client side                                                              *)

\* the call begins; update_file's size check has no yield point of its own and belongs to this step
Invoke(c) ==
  /\ UNCHANGED cf
  /\ pc[c] = "idle" /\ opi[c] <= Len(Progs[c])
  /\ LET o == Op(c)
         h == [c |-> c, k |-> o.k, f |-> o.f, v |-> o.v, inv |-> evc, res |-> 0, out |-> "?", val |-> 0, mem |-> 0] IN
     IF o.k = "reo"      \* a new store object is opened on the same directory (sequential configurations only)
     THEN /\ \A i \in 1..MaxFut : task[i].pc = "done"
          /\ hist' = Append(hist, [h EXCEPT !.res = evc + 1, !.out = "ok"])
          /\ evc' = evc + 2
          /\ opi' = [opi EXCEPT ![c] = @ + 1]
          /\ ff' = [f \in Files |-> NoEntry] /\ heap' = {} /\ mem' = 0
          /\ UNCHANGED <<pc, loc, disk, clk, futs, nfut, task>>
     ELSE IF o.k = "upd" /\ Size(o.v) > MaxMem
     THEN /\ hist' = Append(hist, [h EXCEPT !.res = evc + 1, !.out = "memerr", !.mem = mem])
          /\ evc' = evc + 2
          /\ opi' = [opi EXCEPT ![c] = @ + 1]
          /\ UNCHANGED <<pc, loc>>
     ELSE /\ hist' = Append(hist, h)
          /\ loc' = [loc EXCEPT ![c] = [fut |-> 0, applied |-> FALSE, claim |-> 0, h |-> Len(hist) + 1]]
          /\ pc' = [pc EXCEPT ![c] = CASE o.k = "get" -> "g_exists" [] o.k = "upd" -> "u_lock" [] OTHER -> "n_lock"]
          /\ evc' = evc + 1
          /\ UNCHANGED opi
  /\ (Op(c).k # "reo") => UNCHANGED <<disk, ff, heap, mem, clk, futs, nfut, task>>

Finish(c, out, val, m) ==
  /\ hist' = [hist EXCEPT ![loc[c].h].res = evc, ![loc[c].h].out = out, ![loc[c].h].val = val,
                          ![loc[c].h].mem = m]          \* byte total when the call returns
  /\ evc' = evc + 1
  /\ pc' = [pc EXCEPT ![c] = "idle"]
  /\ opi' = [opi EXCEPT ![c] = @ + 1]

GExists(c) ==
  /\ UNCHANGED cf
  /\ pc[c] = "g_exists"
  /\ IF disk[Op(c).f] = Absent
     THEN Finish(c, "nofile", 0, mem) /\ UNCHANGED loc
     ELSE pc' = [pc EXCEPT ![c] = "g_size"] /\ UNCHANGED <<hist, evc, opi, loc>>
  /\ UNCHANGED <<disk, ff, heap, mem, clk, futs, nfut, task>>

GSize(c) ==
  /\ UNCHANGED cf
  /\ pc[c] = "g_size"
  /\ LET claim == Size(disk[Op(c).f]) IN
     IF claim > MaxMem
     THEN Finish(c, "memerr", 0, mem) /\ UNCHANGED loc
     ELSE /\ pc' = [pc EXCEPT ![c] = "g_lock"]
          /\ loc' = [loc EXCEPT ![c].claim = claim]
          /\ UNCHANGED <<hist, evc, opi>>
  /\ UNCHANGED <<disk, ff, heap, mem, clk, futs, nfut, task>>

NewFut(kind, f, v) ==
  /\ nfut < MaxFut
  /\ nfut' = nfut + 1
  /\ futs' = [futs EXCEPT ![nfut + 1] = [st |-> "pending", val |-> 0]]
  /\ task' = [task EXCEPT ![nfut + 1] = [kind |-> kind, f |-> f, v |-> v,
                                        pc |-> IF kind = "load" THEN "l_read" ELSE "w_open", data |-> 0]]

GLock(c) ==
  /\ UNCHANGED cf
  /\ pc[c] = "g_lock"
  /\ LET f == Op(c).f IN
     IF ~ff[f].present
     THEN /\ NewFut("load", f, 0)
          /\ ff' = [ff EXCEPT ![f] = [present |-> TRUE, w |-> FALSE, bytes |-> loc[c].claim, fut |-> nfut + 1]]
          /\ loc' = [loc EXCEPT ![c].fut = nfut + 1]
          /\ UNCHANGED <<heap, mem, clk>>
     ELSE /\ loc' = [loc EXCEPT ![c].fut = ff[f].fut]
          /\ IF futs[ff[f].fut].st # "pending" THEN SetSt(Touch(St, f)) ELSE UNCHANGED <<ff, heap, mem, clk>>
          /\ UNCHANGED <<futs, nfut, task>>
  /\ pc' = [pc EXCEPT ![c] = "g_wait"]
  /\ UNCHANGED <<disk, hist, evc, opi>>

GWait(c) ==
  /\ UNCHANGED cf
  /\ pc[c] = "g_wait" /\ futs[loc[c].fut].st \in {"ok", "err"}
  /\ IF futs[loc[c].fut].st = "ok" THEN Finish(c, "value", futs[loc[c].fut].val, mem)
     ELSE Finish(c, "internalerr", futs[loc[c].fut].val, mem)
  /\ UNCHANGED <<disk, ff, heap, mem, clk, futs, nfut, task, loc>>

ULock(c) ==
  /\ UNCHANGED cf
  /\ pc[c] = "u_lock"
  /\ ExcludeKnown => ~KnownULock(c)
  /\ LET f == Op(c).f
         v == Op(c).v IN
     IF ~ff[f].present \/ ~ff[f].w
     THEN LET S == Unload(St, f) IN
          /\ NewFut("write", f, v)
          /\ ff' = [S.ff EXCEPT ![f] = [present |-> TRUE, w |-> TRUE, bytes |-> Size(v), fut |-> nfut + 1]]
          /\ heap' = S.heap /\ mem' = S.mem /\ clk' = S.clk
          /\ loc' = [loc EXCEPT ![c].fut = nfut + 1, ![c].applied = TRUE]
     ELSE /\ loc' = [loc EXCEPT ![c].fut = ff[f].fut, ![c].applied = FALSE]
          /\ UNCHANGED <<ff, heap, mem, clk, futs, nfut, task>>
  /\ pc' = [pc EXCEPT ![c] = "u_wait"]
  /\ UNCHANGED <<disk, hist, evc, opi>>

UWait(c) ==
  /\ UNCHANGED cf
  /\ pc[c] = "u_wait" /\ futs[loc[c].fut].st \in {"ok", "err"}
  /\ IF futs[loc[c].fut].st = "ok"
     THEN Finish(c, IF loc[c].applied THEN "applied" ELSE "notapplied", 0, mem)
     ELSE Finish(c, "internalerr", futs[loc[c].fut].val, mem)
  /\ UNCHANGED <<disk, ff, heap, mem, clk, futs, nfut, task, loc>>

NLock(c) ==
  /\ UNCHANGED cf
  /\ pc[c] = "n_lock"
  /\ ExcludeKnown => ~KnownNLock(c)
  /\ LET f == Op(c).f
         S == Unload([St EXCEPT !.heap = HeapWithout(@, f)], f) IN SetSt(S) /\ Finish(c, "ok", 0, S.mem)
  /\ UNCHANGED <<disk, futs, nfut, task, loc>>

-----------------------------------------------------------------------------
(* worker tasks; error codes in the future: 1 = FileNotFoundError, 2 = AssertionError, 3 = KeyError *)

Fail(i, code) == futs' = [futs EXCEPT ![i] = [st |-> "err", val |-> code]]
ErrCode(s) == IF s = "assert" THEN 2 ELSE 3

LRead(i) ==
  /\ UNCHANGED cf
  /\ task[i].kind = "load" /\ task[i].pc = "l_read"
  /\ IF disk[task[i].f] = Absent
     THEN Fail(i, 1) /\ task' = [task EXCEPT ![i].pc = "done"]
     ELSE task' = [task EXCEPT ![i].pc = "l_lock", ![i].data = disk[task[i].f]] /\ UNCHANGED futs
  /\ UNCHANGED <<disk, ff, heap, mem, clk, nfut, pc, opi, loc, hist, evc>>

LLock(i) ==
  /\ UNCHANGED cf
  /\ task[i].kind = "load" /\ task[i].pc = "l_lock"
  /\ LET r == UFM(St, task[i].f, Size(task[i].data)) IN
     /\ SetSt(r[1])
     /\ IF r[2] = "ok" THEN futs' = [futs EXCEPT ![i] = [st |-> "ok", val |-> task[i].data]]
        ELSE Fail(i, ErrCode(r[2]))
  /\ task' = [task EXCEPT ![i].pc = "done"]
  /\ UNCHANGED <<disk, nfut, pc, opi, loc, hist, evc>>

WOpen(i) ==
  /\ UNCHANGED cf
  /\ task[i].kind = "write" /\ task[i].pc = "w_open"
  /\ disk' = [disk EXCEPT ![task[i].f] = Trunc]
  /\ task' = [task EXCEPT ![i].pc = "w_write"]
  /\ UNCHANGED <<ff, heap, mem, clk, futs, nfut, pc, opi, loc, hist, evc>>

WWrite(i) ==
  /\ UNCHANGED cf
  /\ task[i].kind = "write" /\ task[i].pc = "w_write"
  /\ disk' = [disk EXCEPT ![task[i].f] = task[i].v]
  /\ task' = [task EXCEPT ![i].pc = "w_lock"]
  /\ UNCHANGED <<ff, heap, mem, clk, futs, nfut, pc, opi, loc, hist, evc>>

WLock(i) ==
  /\ UNCHANGED cf
  /\ task[i].kind = "write" /\ task[i].pc = "w_lock"
  /\ LET r == UFM(St, task[i].f, Size(task[i].v)) IN
     /\ SetSt(r[1])
     /\ IF r[2] = "ok" THEN futs' = [futs EXCEPT ![i] = [st |-> "ok", val |-> task[i].v]]
        ELSE Fail(i, ErrCode(r[2]))
  /\ task' = [task EXCEPT ![i].pc = "done"]
  /\ UNCHANGED <<disk, nfut, pc, opi, loc, hist, evc>>

-----------------------------------------------------------------------------
ClientStep(c) ==
  \/ Invoke(c) \/ GExists(c) \/ GSize(c) \/ GLock(c) \/ GWait(c)
  \/ ULock(c) \/ UWait(c)
  \/ NLock(c)

TaskStep(i) == LRead(i) \/ LLock(i) \/ WOpen(i) \/ WWrite(i) \/ WLock(i)

AllDone == /\ \A c \in Clients : pc[c] = "idle" /\ opi[c] > Len(Progs[c])
           /\ \A i \in 1..MaxFut : task[i].pc = "done"

\* with ExcludeKnown a client may be parked for ever in front of an excluded step: that is the
\* boundary of the explored space, not a deadlock of the code
Parked == ExcludeKnown /\ \E c \in Clients : (pc[c] = "u_lock" /\ KnownULock(c)) \/ (pc[c] = "n_lock" /\ KnownNLock(c))

Stutter == (AllDone \/ Parked) /\ UNCHANGED vars

Next == \/ \E c \in Clients : ClientStep(c)
        \/ \E i \in 1..MaxFut : TaskStep(i)
        \/ Stutter

Spec == Init /\ [][Next]_vars

-----------------------------------------------------------------------------
(* properties                                                               *)

MemNonNeg == mem >= 0
MemBounded == mem <= MaxMem

NoInternalError == \A h \in 1..Len(hist) : hist[h].out # "internalerr"

\* no thread is stuck: every non-terminal state has a successor (checked by TLC's deadlock check,
\* the terminal stuttering step is AllDone)

Abs == INSTANCE CacheAbs

\* projection of the implementation state onto what the property talks about
CachedContent == [f \in Files |-> IF ~ff[f].present THEN Abs!NotCached
                                  ELSE IF futs[ff[f].fut].st = "ok" THEN futs[ff[f].fut].val
                                  ELSE Abs!Broken]
EntryBytes == [f \in Files |-> IF ff[f].present THEN ff[f].bytes ELSE -1]
HeapFiles == {e[2] : e \in heap}

Accounting   == AllDone => Abs!AccountingOk(mem, MaxMem, EntryBytes, HeapFiles, Files)
Linearizable == AllDone => Abs!LinearizableH(hist, InitDisk, disk, CachedContent, Files)

TypeOK == /\ nfut \in 0..MaxFut
          /\ \A f \in Files : ff[f].present => ff[f].fut \in 1..nfut
=============================================================================
