--------------------------- MODULE TableStoreTrace ---------------------------
EXTENDS Integers, Sequences, FiniteSets, TLC, Json, IOUtils
A == INSTANCE TableStoreAbs
Traces == JsonDeserialize(IOEnv.TRACE_FILE)
VARIABLE i
RECURSIVE Fold(_, _, _, _)
Fold(m, at, evs, k) ==
  IF k > Len(evs) THEN <<m, at>>
  ELSE LET m2 == A!Step(m, evs[k]) IN Fold(m2, IF at = 0 /\ m2.bad # "ok" THEN k ELSE at, evs, k + 1)
Judge(tr) == LET r == Fold(A!MonInit({tr.keys[j] : j \in 1..Len(tr.keys)}), 0, tr.events, 1)
             IN [tid |-> tr.tid, bad |-> r[1].bad, at |-> r[2]]
Init == i = 0
Next == /\ i < Len(Traces) /\ i' = i + 1 /\ PrintT(ToJson(Judge(Traces[i + 1])))
=============================================================================
