----------------------------- MODULE DurableConc -----------------------------
(***************************************************************************)
(* C17, concurrent setters (extension of DurableImpl.tla): several threads  *)
(* call KeyValueStorage.set at the same time.  FileCache.update_file, under *)
(* file_futures_lock, either submits a write job to the executor (no write  *)
(* of that file in flight) or finds one in flight, waits for it and returns *)
(* False - the caller's value is NOT written.  A write job is               *)
(*   open(O_TRUNC); write; [flush; fsync]; close;                           *)
(*   update_file_futures_and_memory (under the lock: entry becomes cached). *)
(* Retry names what a setter does whose write was refused:                  *)
(*   "none"    nothing (the code as it is): its value is dropped            *)
(*   "fsync"   submits again, with fsync (a correct blind-write retry)      *)
(*   "nofsync" submits again and forgets use_fsync (a realistic mistake;    *)
(*             negative control: the rule must fail)                        *)
(* The monitor treats the sets on one key as a group: when the last of them *)
(* has returned, the value the live store shows must be durable.            *)
(***************************************************************************)
EXTENDS Integers, Sequences, FiniteSets, TLC

CONSTANTS Keys, Vals, SizeOf, Setters, Retry     \* Setters: sequence of [key, v]

D == INSTANCE Durable
T == 1..Len(Setters)

VARIABLES spc, waits, applied, fs, jobs, fut, act, m
vars == <<spc, waits, applied, fs, jobs, fut, act, m>>

NoFut == [w |-> FALSE, job |-> 0]
Init ==
  /\ spc = [t \in T |-> "idle"] /\ waits = [t \in T |-> 0] /\ applied = [t \in T |-> FALSE]
  /\ fs = [t \in T |-> TRUE]                    \* use_fsync of the next submission of t
  /\ jobs = <<>> /\ fut = [k \in Keys |-> NoFut] /\ act = [k \in Keys |-> 0]
  /\ m = D!MonInit(Keys)

Feed(e) == m' = D!Step(m, e)
Key(t) == Setters[t].key
Val(t) == Setters[t].v

Call(t) ==
  /\ spc[t] = "idle"
  /\ Feed([ev |-> "gbegin", key |-> Key(t)])
  /\ act' = [act EXCEPT ![Key(t)] = @ + 1]
  /\ spc' = [spc EXCEPT ![t] = "start"]
  /\ UNCHANGED <<waits, applied, fs, jobs, fut>>

\* the critical section of update_file
Lock(t) ==
  /\ spc[t] = "start"
  /\ IF ~fut[Key(t)].w
     THEN /\ jobs' = Append(jobs, [key |-> Key(t), v |-> Val(t), fsync |-> fs[t], pc |-> "open"])
          /\ fut' = [fut EXCEPT ![Key(t)] = [w |-> TRUE, job |-> Len(jobs) + 1]]
          /\ applied' = [applied EXCEPT ![t] = TRUE]
          /\ waits' = [waits EXCEPT ![t] = Len(jobs) + 1]
     ELSE /\ applied' = [applied EXCEPT ![t] = FALSE]
          /\ waits' = [waits EXCEPT ![t] = fut[Key(t)].job]
          /\ UNCHANGED <<jobs, fut>>
  /\ spc' = [spc EXCEPT ![t] = "wait"]
  /\ UNCHANGED <<fs, act, m>>

\* future.result()
Wake(t) ==
  /\ spc[t] = "wait" /\ jobs[waits[t]].pc = "done"
  /\ IF Retry # "none" /\ ~applied[t]
     THEN spc' = [spc EXCEPT ![t] = "start"] /\ fs' = [fs EXCEPT ![t] = (Retry = "fsync")]
     ELSE spc' = [spc EXCEPT ![t] = "ret"] /\ UNCHANGED fs
  /\ UNCHANGED <<waits, applied, jobs, fut, act, m>>

Live(k) == jobs[fut[k].job].v          \* what a get on the live store returns: the cached contents
Ret(t) ==
  /\ spc[t] = "ret"
  /\ act' = [act EXCEPT ![Key(t)] = @ - 1]
  /\ IF act[Key(t)] = 1
     THEN Feed([ev |-> "greturn", key |-> Key(t), v |-> Live(Key(t)), size |-> SizeOf[Live(Key(t))]])
     ELSE m' = m
  /\ spc' = [spc EXCEPT ![t] = "done"]
  /\ UNCHANGED <<waits, applied, fs, jobs, fut>>

\* one step of write job j on an executor thread
Job(j) ==
  LET b == jobs[j] IN
  /\ b.pc # "done"
  /\ CASE b.pc = "open"  -> Feed([ev |-> "otrunc", path |-> b.key]) /\ jobs' = [jobs EXCEPT ![j].pc = "write"] /\ UNCHANGED fut
       [] b.pc = "write" -> Feed([ev |-> "write", path |-> b.key, v |-> b.v, upto |-> SizeOf[b.v]])
                            /\ jobs' = [jobs EXCEPT ![j].pc = "fsync"] /\ UNCHANGED fut
       [] b.pc = "fsync" -> (IF b.fsync THEN Feed([ev |-> "fsync", path |-> b.key]) ELSE m' = m)
                            /\ jobs' = [jobs EXCEPT ![j].pc = "close"] /\ UNCHANGED fut
       [] b.pc = "close" -> Feed([ev |-> "close", path |-> b.key]) /\ jobs' = [jobs EXCEPT ![j].pc = "finish"] /\ UNCHANGED fut
       [] b.pc = "finish" -> /\ fut' = [fut EXCEPT ![b.key] = [w |-> FALSE, job |-> j]]      \* update_file_futures_and_memory
                             /\ jobs' = [jobs EXCEPT ![j].pc = "done"] /\ m' = m
  /\ UNCHANGED <<spc, waits, applied, fs, act>>

Next == (\E t \in T : Call(t) \/ Lock(t) \/ Wake(t) \/ Ret(t)) \/ (\E j \in 1..Len(jobs) : Job(j))
        \/ ((\A t \in T : spc[t] = "done") /\ UNCHANGED vars)
Spec == Init /\ [][Next]_vars /\ WF_vars(Next)

Good == m.bad = "ok"
\* a write of a file is never started while another write of the same file is still running
OneWriterPerFile == \A i, j \in 1..Len(jobs) : (i # j /\ jobs[i].key = jobs[j].key) => (jobs[i].pc = "done" \/ jobs[j].pc = "done")
\* every setter returns
AllReturn == <>(\A t \in T : spc[t] = "done")
=============================================================================
