------------------------------ MODULE TableAbs ------------------------------
(***************************************************************************)
(* C19 - a table as the user sees it: an ordered list of rows, optionally   *)
(* indexed.  Written as a MONITOR: state record m and a total Step(m, e)    *)
(* over operations carrying the OBSERVED result; the monitor computes the   *)
(* result the abstract table prescribes and latches the first mismatch.     *)
(*                                                                         *)
(* A cell is a record [s |-> text, r |-> rank]: equality is equality of s,  *)
(* order (for index keys) is order of r.  A row is a sequence of cells.     *)
(*                                                                         *)
(* Operations (e.op):                                                       *)
(*   create  [cols, rows]            .table(...)                            *)
(*   insert  [row]                   .insert(t; row)                        *)
(*   insertb [rows]                  .insert(t; [row row ...])              *)
(*   col     [name, obs]             t?name      obs: Seq(cell) or "undef"  *)
(*   count   [obs]                   #t                                     *)
(*   schema  [obs]                   .schema(t)                             *)
(*   index   [cols, obs]             .index(t; cols)                        *)
(*   rindex  [obs]                   .rindex(t)                             *)
(*   addcol  [name, vals]            t,name,,vals                           *)
(*   sql     [obs]                   db("select * from T")  obs: Seq(row)   *)
(* Observations of the text part only are compared (kind int/real is not    *)
(* part of the property).                                                   *)
(***************************************************************************)
EXTENDS Integers, Sequences, FiniteSets

MonInit == [cols |-> <<>>, rows |-> <<>>, idx |-> <<>>, bad |-> "ok", live |-> FALSE]

Pos(cols, name) == CHOOSE j \in 1..Len(cols) : cols[j] = name
HasCol(cols, name) == \E j \in 1..Len(cols) : cols[j] = name

Key(m, row) == [j \in 1..Len(m.idx) |-> row[Pos(m.cols, m.idx[j])]]
KeyEq(k1, k2) == \A j \in 1..Len(k1) : k1[j].s = k2[j].s
\* lexicographic order of keys by rank
RECURSIVE KeyLess(_, _, _)
KeyLess(k1, k2, j) == IF j > Len(k1) THEN FALSE
                      ELSE IF k1[j].r < k2[j].r THEN TRUE
                      ELSE IF k1[j].r > k2[j].r THEN FALSE
                      ELSE KeyLess(k1, k2, j + 1)

\* insert one row into a sequence sorted by key, replacing the row with an equal key
RECURSIVE Upsert(_, _, _)
Upsert(m, rows, row) ==
  IF rows = <<>> THEN <<row>>
  ELSE IF KeyEq(Key(m, Head(rows)), Key(m, row)) THEN <<row>> \o Tail(rows)
  ELSE IF KeyLess(Key(m, row), Key(m, Head(rows)), 1) THEN <<row>> \o rows
  ELSE <<Head(rows)>> \o Upsert(m, Tail(rows), row)

InsertOne(m, row) == IF m.idx = <<>> THEN [m EXCEPT !.rows = Append(@, row)]
                     ELSE [m EXCEPT !.rows = Upsert(m, @, row)]

RECURSIVE InsertAll(_, _)
InsertAll(m, rs) == IF rs = <<>> THEN m ELSE InsertAll(InsertOne(m, Head(rs)), Tail(rs))

\* keys of the rows are pairwise different (the domain in which an index is defined)
UniqueKeys(m, cols) ==
  LET mm == [m EXCEPT !.idx = cols] IN
  \A i, j \in 1..Len(m.rows) : i # j => ~KeyEq(Key(mm, m.rows[i]), Key(mm, m.rows[j]))

RECURSIVE SortRows(_, _)
SortRows(m, rs) == IF rs = <<>> THEN <<>> ELSE Upsert(m, SortRows(m, Tail(rs)), Head(rs))

TextRow(row) == [j \in 1..Len(row) |-> row[j].s]
TextRows(rows) == [i \in 1..Len(rows) |-> TextRow(rows[i])]
Column(m, name) == [i \in 1..Len(m.rows) |-> m.rows[i][Pos(m.cols, name)].s]
ObsText(cells) == [i \in 1..Len(cells) |-> cells[i].s]

\* <<new state, verdict>>; verdict "skip" = outside the domain the property defines: the rest of
\* the history is not judged (live = FALSE)
\* observations are records [k |-> kind, v |-> payload]: kind "seq" (cells or rows), "int", "undef", "error", "ok"
Do(m, e) ==
  CASE e.op = "create" -> <<[m EXCEPT !.cols = e.cols, !.rows = e.rows, !.idx = <<>>, !.live = TRUE], "ok">>
    [] e.op = "insert"  -> <<InsertOne(m, e.row), "ok">>
    [] e.op = "insertb" -> <<InsertAll(m, e.rows), "ok">>
    [] e.op = "col" ->
         IF ~HasCol(m.cols, e.name) THEN <<m, IF e.obs.k = "undef" THEN "ok" ELSE "MissingColumnNotUndefined">>
         ELSE IF e.obs.k = "undef" THEN <<m, "ColumnReadUndefined">>
         ELSE IF e.obs.k # "seq" THEN <<m, "ReadFailed">>
         ELSE <<m, IF e.obs.v = Column(m, e.name) THEN "ok" ELSE "ColumnMismatch">>
    [] e.op = "count" -> <<m, IF e.obs.k = "int" /\ e.obs.v = Len(m.rows) THEN "ok" ELSE "CountMismatch">>
    [] e.op = "schema" -> <<m, IF e.obs.k = "seq" /\ e.obs.v = m.cols THEN "ok" ELSE "SchemaMismatch">>
    [] e.op = "index" ->
         IF m.idx # <<>> THEN <<m, IF e.obs.k = "error" THEN "ok" ELSE "SecondIndexAccepted">>
         ELSE IF ~UniqueKeys(m, e.cols) THEN <<m, "skip">>
         ELSE IF e.obs.k # "seq" THEN <<m, "IndexFailed">>
         ELSE LET m1 == [m EXCEPT !.idx = e.cols] IN
              <<[m1 EXCEPT !.rows = SortRows(m1, m.rows)], IF e.obs.v = e.cols THEN "ok" ELSE "IndexResult">>
    [] e.op = "rindex" -> <<[m EXCEPT !.idx = <<>>],
                            IF e.obs.k = "int" /\ e.obs.v = (IF m.idx = <<>> THEN 0 ELSE 1) THEN "ok" ELSE "RindexResult">>
    [] e.op = "addcol" ->
         IF e.obs.k = "error" THEN <<m, "AddColumnFailed">>
         ELSE IF HasCol(m.cols, e.name)
         THEN <<[m EXCEPT !.rows = [i \in 1..Len(m.rows) |->
                                      [m.rows[i] EXCEPT ![Pos(m.cols, e.name)] = e.vals[i]]]], "ok">>
         ELSE <<[m EXCEPT !.cols = Append(@, e.name),
                          !.rows = [i \in 1..Len(m.rows) |-> Append(m.rows[i], e.vals[i])]], "ok">>
    [] e.op = "sql" -> <<m, IF e.obs.k # "seq" THEN "SqlFailed"
                            ELSE IF e.obs.v = TextRows(m.rows) THEN "ok" ELSE "SqlMismatch">>
    [] e.op = "insert_failed" -> <<m, "InsertFailed">>      \* .insert of a well-formed row raised
    [] OTHER -> <<m, "ok">>

Step(m, e) ==
  IF ~m.live /\ e.op # "create" THEN m
  ELSE LET r == Do(m, e) IN
       IF r[2] = "skip" THEN [r[1] EXCEPT !.live = FALSE]
       ELSE IF m.bad = "ok" /\ r[2] # "ok" THEN [r[1] EXCEPT !.bad = r[2]] ELSE r[1]
=============================================================================
