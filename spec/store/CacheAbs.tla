------------------------------ MODULE CacheAbs ------------------------------
(***************************************************************************)
(* C16 / C18 - what a user of the file cache relies on, with no internal    *)
(* identifiers: one atomic register per file, plus the accounting           *)
(* obligations of the cache.  Everything is an operator over explicit       *)
(* arguments so that the implementation-shaped model (FileCache.tla) and    *)
(* the trace validator (CacheTrace.tla) are judged by the same text.        *)
(*                                                                         *)
(* A history is a sequence of records                                       *)
(*   [c, k, f, v, inv, res, out, val]                                       *)
(* k = "get": out = "value" (val = content) | "nofile" | "memerr"           *)
(* k = "upd": out = "applied" | "notapplied" | "memerr"                     *)
(* k = "unl": out = "ok"                                                    *)
(* out = "internalerr" marks a call that failed with an exception the       *)
(* interface does not document (AssertionError, KeyError, ...).             *)
(* Contents are integers: -1 absent, 0 empty file, > 0 a value id.          *)
(***************************************************************************)
EXTENDS Integers, Sequences, FiniteSets

Absent    == -1
NotCached == -2
Broken    == -3

RECURSIVE Legal(_, _, _, _)
Legal(hist, order, k, reg) ==       \* reg: [Files -> content]; returns <<ok, final reg>>
  IF k > Len(order) THEN <<TRUE, reg>>
  ELSE LET o == hist[order[k]] IN
       CASE o.k = "get" ->
              IF o.out = "memerr" THEN Legal(hist, order, k + 1, reg)
              ELSE IF (o.out = "nofile" /\ reg[o.f] = Absent) \/ (o.out = "value" /\ reg[o.f] = o.val)
                   THEN Legal(hist, order, k + 1, reg) ELSE <<FALSE, reg>>
         [] o.k = "upd" ->
              IF o.out = "applied" THEN Legal(hist, order, k + 1, [reg EXCEPT ![o.f] = o.v])
              ELSE Legal(hist, order, k + 1, reg)      \* an update that reports failure has no effect
         [] OTHER -> Legal(hist, order, k + 1, reg)

RealTime(hist, order) == \A i, j \in 1..Len(order) : i < j => ~(hist[order[j]].res < hist[order[i]].inv)

Orders(n) == {p \in [1..n -> 1..n] : \A i, j \in 1..n : i # j => p[i] # p[j]}

\* when all calls have finished: file on disk = last successful update = cached contents
FinalOk(reg, disk, cached, Files) ==
  \A f \in Files : /\ disk[f] = reg[f]
                   /\ cached[f] # NotCached => cached[f] = disk[f]

NoInternalErrorH(hist) == \A h \in 1..Len(hist) : hist[h].out # "internalerr"

LinearizableH(hist, initdisk, disk, cached, Files) ==
  \E p \in Orders(Len(hist)) :
     /\ RealTime(hist, p)
     /\ LET r == Legal(hist, p, 1, initdisk) IN r[1] /\ FinalOk(r[2], disk, cached, Files)

RECURSIVE Sum(_, _)
Sum(bytes, S) == IF S = {} THEN 0 ELSE LET f == CHOOSE x \in S : TRUE IN bytes[f] + Sum(bytes, S \ {f})

\* bytes[f] = -1 when f has no entry
AccountingOk(mem, maxmem, bytes, heapfiles, Files) ==
  LET C == {f \in Files : bytes[f] >= 0} IN
  /\ mem = Sum(bytes, C)
  /\ mem >= 0 /\ mem <= maxmem
  /\ heapfiles = C
=============================================================================
