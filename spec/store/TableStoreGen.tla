---------------------------- MODULE TableStoreGen ----------------------------
(* C16 (table store): generator of operation histories. *)
EXTENDS Integers, Sequences, FiniteSets, TLC, Json
CONSTANTS Keys, MaxOps
VARIABLE hist
\* the written tables: index ranges overlap (table 2 shares 20 indices with table 1), table 3 is disjoint, 4 is a subset of 1, 5 starts at the last index of 1, 6 overlaps 1 and has an extra column, 7 has no rows
Range(t) == CASE t = 1 -> 0..24 [] t = 2 -> 5..34 [] t = 3 -> 100..124 [] t = 4 -> 3..6 [] t = 5 -> 24..30 [] t = 6 -> 20..27 [] t = 7 -> {}
Init == hist = <<>>
Add(e) == hist' = Append(hist, e)
Next == /\ Len(hist) < MaxOps
        /\ \/ \E k \in Keys, t \in 1..7 : Add([op |-> "set", key |-> k, t |-> t])
           \/ \E k \in Keys \cup {"never"} : Add([op |-> "get", key |-> k])
           \/ Add([op |-> "reopen"])
           \/ \E k \in Keys : Add([op |-> "unload", key |-> k])
Emit == Len(hist) = MaxOps => PrintT(ToJson(hist))
=============================================================================
