----------------------------- MODULE DurableImpl -----------------------------
(***************************************************************************)
(* Implementation-shaped model of KeyValueStorage.set -> FileCache          *)
(* .update_file(use_fsync=True) -> _write_file for a sequence of sets:      *)
(*   makedirs; f = open(path,'wb'); f.write(data); [f.flush();]             *)
(*   os.fsync(f.fileno()); close (flushes the rest); future done; return    *)
(* Python's BufferedWriter passes data to the kernel when its buffer        *)
(* (BufSize) overflows, on flush() and on close(); FlushBeforeFsync says    *)
(* whether the code calls f.flush() before os.fsync (the tree after the     *)
(* fix) or not (the pinned tree).  Every file-system event is fed to the    *)
(* Durable monitor, whose rule is evaluated at every crash point.           *)
(***************************************************************************)
EXTENDS Integers, Sequences, FiniteSets, TLC

CONSTANTS Keys, Vals, SizeOf, BufSize, Prog, FlushBeforeFsync, UseFsync
\* Prog: sequence of [key, v]

D == INSTANCE Durable

VARIABLES pc, k, ubuf, m
vars == <<pc, k, ubuf, m>>

Init == pc = "begin" /\ k = 1 /\ ubuf = 0 /\ m = D!MonInit(Keys)

Cur == Prog[k]
Size == SizeOf[Cur.v]
Feed(e) == m' = D!Step(m, e)
KernN == IF m.kern[Cur.key][1] = Cur.v THEN m.kern[Cur.key][2] ELSE 0

Begin ==
  /\ pc = "begin" /\ k <= Len(Prog)
  /\ Feed([ev |-> "begin", key |-> Cur.key, v |-> Cur.v, size |-> Size])
  /\ pc' = "open" /\ UNCHANGED <<k, ubuf>>
Open ==
  /\ pc = "open"
  /\ Feed([ev |-> "otrunc", path |-> Cur.key])
  /\ pc' = "pywrite" /\ ubuf' = 0 /\ UNCHANGED k
\* f.write(data): data larger than the buffer go to the kernel at once, smaller data stay in user space
PyWrite ==
  /\ pc = "pywrite"
  /\ IF Size > BufSize
     THEN Feed([ev |-> "write", path |-> Cur.key, v |-> Cur.v, upto |-> Size]) /\ ubuf' = 0
     ELSE m' = m /\ ubuf' = Size
  /\ pc' = (IF FlushBeforeFsync THEN "flush" ELSE "fsync")
  /\ UNCHANGED k
Flush ==
  /\ pc = "flush"
  /\ (IF ubuf > 0 THEN Feed([ev |-> "write", path |-> Cur.key, v |-> Cur.v, upto |-> KernN + ubuf]) ELSE m' = m)
  /\ ubuf' = 0 /\ pc' = "fsync" /\ UNCHANGED k
Fsync ==
  /\ pc = "fsync"
  /\ (IF UseFsync THEN Feed([ev |-> "fsync", path |-> Cur.key]) ELSE m' = m)
  /\ pc' = "close" /\ UNCHANGED <<k, ubuf>>
Close ==
  /\ pc = "close"
  /\ (IF ubuf > 0 THEN Feed([ev |-> "write", path |-> Cur.key, v |-> Cur.v, upto |-> KernN + ubuf]) ELSE m' = m)
  /\ ubuf' = 0 /\ pc' = "return" /\ UNCHANGED k
Return ==
  /\ pc = "return"
  /\ Feed([ev |-> "return", key |-> Cur.key])
  /\ pc' = "begin" /\ k' = k + 1 /\ UNCHANGED ubuf

Next == Begin \/ Open \/ PyWrite \/ Flush \/ Fsync \/ Close \/ Return \/ (k > Len(Prog) /\ UNCHANGED vars)
Spec == Init /\ [][Next]_vars

Good == m.bad = "ok"
=============================================================================
