---------------------------- MODULE TableStoreAbs ----------------------------
(***************************************************************************)
(* C16 (table store) - a directory of tables with the documented merge on   *)
(* write (existing rows win on equal index), as a monitor over operations   *)
(* with their observed results and the cache's accounting after each one.   *)
(*  a table = function index -> tag (which written table the row came from) *)
(*  events                                                                  *)
(*   [op |-> "set", key, rows]       rows: sequence of <<index, tag>>       *)
(*   [op |-> "get", key, obs]        obs: "undef" marker (und = TRUE) or    *)
(*                                   the rows read, sequence of <<i, tag>>  *)
(*   [op |-> "reopen"]  [op |-> "unload", key]                              *)
(*  every event carries acct = [mem, sum, limit, internal]: the byte total, *)
(*  the sum of the bytes of the entries held, the configured limit, whether *)
(*  a background task failed with an internal error                         *)
(***************************************************************************)
EXTENDS Integers, Sequences, FiniteSets

None == [i \in {} |-> 0]
MonInit(Keys) == [tab |-> [k \in Keys |-> None], has |-> [k \in Keys |-> FALSE], bad |-> "ok"]
AsFn(rows) == [i \in {rows[j][1] : j \in 1..Len(rows)} |-> (CHOOSE j \in 1..Len(rows) : rows[j][1] = i) ]
TagOf(rows, i) == rows[CHOOSE j \in 1..Len(rows) : rows[j][1] = i][2]
New(rows) == [i \in {rows[j][1] : j \in 1..Len(rows)} |-> TagOf(rows, i)]
Merge(old, new) == [i \in DOMAIN old \cup DOMAIN new |-> IF i \in DOMAIN old THEN old[i] ELSE new[i]]
Pairs(f) == {<<i, f[i]>> : i \in DOMAIN f}

Acct(a) == IF a.internal THEN "InternalErrorInCache"
           ELSE IF a.mem # a.sum THEN "AccountingNotSumOfEntries"
           ELSE IF a.mem > a.limit THEN "AccountingExceedsLimit"
           ELSE IF a.mem < 0 THEN "AccountingNegative" ELSE "ok"

Verdict(m, e) ==
  IF e.op = "get" THEN
       (IF ~m.has[e.key] THEN (IF e.und THEN Acct(e.acct) ELSE "MissingKeyNotUndefined")
        ELSE IF e.und THEN "StoredTableReadsAsUndefined"
        ELSE IF Len(e.obs) # Cardinality(DOMAIN m.tab[e.key]) THEN "WrongNumberOfRows"
        ELSE IF {e.obs[j] : j \in 1..Len(e.obs)} # Pairs(m.tab[e.key]) THEN "NotTheDocumentedMerge"
        ELSE Acct(e.acct))
  ELSE Acct(e.acct)

Apply(m, e) ==
  IF e.op = "set" THEN [m EXCEPT !.tab[e.key] = IF m.has[e.key] THEN Merge(@, New(e.rows)) ELSE New(e.rows), !.has[e.key] = TRUE]
  ELSE m

Step(m, e) == LET v == Verdict(m, e) m2 == Apply(m, e)
              IN IF m.bad = "ok" /\ v # "ok" THEN [m2 EXCEPT !.bad = v] ELSE m2
=============================================================================
