------------------------------- MODULE Durable -------------------------------
(***************************************************************************)
(* C17 - POSIX-style persistence model and the durability rule, written as  *)
(* a MONITOR over file-system events (state record m, total Step(m, e)).    *)
(*                                                                         *)
(* Per path p:  kern[p]   kernel-visible content                            *)
(*              dur[p]    content that survives a crash for certain         *)
(*              loose[p]  set of contents the file may ALSO have after a    *)
(*                        crash: every kernel state since the last fsync,   *)
(*                        including every byte prefix of an unsynced write  *)
(* A content is <<v, n>>: the first n bytes of the serialisation of value   *)
(* id v (<<0, 0>> = empty file); Absent = <<-1, 0>>.                        *)
(* Crash images of p at any instant:  {dur[p]} \cup loose[p].               *)
(*                                                                         *)
(* Assumption (stated in DESIGN.md): fsync(fd) makes the file's data AND    *)
(* its directory entry (and the directories created for it) durable.        *)
(*                                                                         *)
(* Events:                                                                  *)
(*  [ev |-> "begin",  key, v, size]     set(key, value v) was called        *)
(*  [ev |-> "mkdir",  path]                                                 *)
(*  [ev |-> "otrunc", path]             open(path, O_WRONLY|O_CREAT|O_TRUNC)*)
(*  [ev |-> "write",  path, v, upto]    write syscall: content now <<v,upto>>*)
(*  [ev |-> "fsync",  path]                                                 *)
(*  [ev |-> "close",  path]                                                 *)
(*  [ev |-> "return", key]              set returned to the caller          *)
(*  [ev |-> "rename", path, to]         rename(path, to) (os.replace)       *)
(*  [ev |-> "dirsync", path, files]     fsync of the DIRECTORY path; files: *)
(*                                      the paths directly inside it        *)
(* A rename is atomic but is a change of the DIRECTORY: after a crash the   *)
(* target shows its old state or the moved file, until the directory itself *)
(* is synced (synced[p] remembers whether the data now under name p were    *)
(* synced, under whatever name).                                            *)
(*  [ev |-> "gbegin", key]              a GROUP of concurrent sets on key   *)
(*                                      starts (first of them is called)    *)
(*  [ev |-> "greturn", key, v, size]    the last set of the group returned; *)
(*                                      the live store now reads value v    *)
(* Concurrent sets on one key (an extension beyond the sequential           *)
(* quantifier of C17): once all of them have returned, the value the live   *)
(* store shows is the value that "has returned", so it must be durable.     *)
(* The rule is evaluated after EVERY event, i.e. at every crash point.       *)
(***************************************************************************)
EXTENDS Integers, Sequences, FiniteSets

Absent == <<-1, 0>>
Empty  == <<0, 0>>

MonInit(Paths) == [kern |-> [p \in Paths |-> Absent], dur |-> [p \in Paths |-> Absent],
                   loose |-> [p \in Paths |-> {}],
                   done |-> [p \in Paths |-> Absent],   \* last value whose set has returned
                   inflight |-> "", want |-> Absent,
                   ginfl |-> {},                          \* keys with a group of concurrent sets in flight
                   torn |-> {},                           \* keys whose set was interrupted (the process was killed inside
                                                          \* it) and that have not been set successfully since: the interrupted
                                                          \* set may have affected them, and only them
                   synced |-> [p \in Paths |-> FALSE],    \* the kernel content of p has been fsynced (under any name)
                   bad |-> "ok"]

Images(m, p) == {m.dur[p]} \cup m.loose[p]

\* every key other than the one being written reads its last completed value in every crash image;
\* the key being written is unconstrained until its set returns
Durability(m) ==
  \A p \in DOMAIN m.kern : (p # m.inflight /\ p \notin m.ginfl /\ p \notin m.torn) => Images(m, p) = {m.done[p]}

InDir(e, p) == \E k \in 1..Len(e.files) : e.files[k] = p      \* the recorder lists the files directly inside the synced directory

Apply(m, e) ==
  CASE e.ev = "begin"  -> [m EXCEPT !.inflight = e.key, !.want = <<e.v, e.size>>,
                                    \* a begin while another set never returned: that set was interrupted
                                    !.torn = IF m.inflight # "" /\ m.inflight # e.key THEN @ \cup {m.inflight} ELSE @]
    [] e.ev = "rename" -> [m EXCEPT !.kern[e.to] = m.kern[e.path], !.kern[e.path] = Absent,
                                    !.synced[e.to] = m.synced[e.path], !.synced[e.path] = FALSE,
                                    !.loose[e.to] = @ \cup Images(m, e.path) \cup {m.kern[e.path], m.kern[e.to]},
                                    !.loose[e.path] = @ \cup {Absent, m.kern[e.path]}]
    [] e.ev = "dirsync" -> [m EXCEPT !.dur = [p \in DOMAIN m.kern |-> IF InDir(e, p) /\ (m.synced[p] \/ m.kern[p] = Absent)
                                                                     THEN m.kern[p] ELSE m.dur[p]],
                                     !.loose = [p \in DOMAIN m.kern |-> IF InDir(e, p) /\ (m.synced[p] \/ m.kern[p] = Absent)
                                                                       THEN {} ELSE m.loose[p]]]
    [] e.ev = "otrunc" -> [m EXCEPT !.kern[e.path] = Empty, !.synced[e.path] = FALSE,
                                    !.loose[e.path] = @ \cup {Empty} \cup (IF m.kern[e.path] = Absent THEN {} ELSE {m.kern[e.path]})]
    [] e.ev = "write"  -> LET old == m.kern[e.path]
                              from == IF old[1] = e.v THEN old[2] ELSE 0 IN
                          [m EXCEPT !.kern[e.path] = <<e.v, e.upto>>, !.synced[e.path] = FALSE,
                                    !.loose[e.path] = @ \cup {<<e.v, n>> : n \in from..e.upto}
                                                        \cup (IF old = Absent THEN {} ELSE {old})]
    [] e.ev = "fsync"  -> [m EXCEPT !.dur[e.path] = m.kern[e.path], !.loose[e.path] = {}, !.synced[e.path] = TRUE]
    [] e.ev = "return" -> [m EXCEPT !.done[e.key] = m.want, !.inflight = "", !.torn = @ \ {e.key}]
    [] e.ev = "gbegin" -> [m EXCEPT !.ginfl = @ \cup {e.key}]
    [] e.ev = "greturn" -> [m EXCEPT !.done[e.key] = <<e.v, e.size>>, !.ginfl = @ \ {e.key}]
    [] OTHER -> m          \* mkdir, close: no effect on file contents in this model

Verdict(m2, e) ==
  IF ~Durability(m2)
  THEN IF e.ev \in {"return", "greturn"} THEN "ReturnedButNotDurable" ELSE "OtherKeyHarmed"
  ELSE "ok"

Step(m, e) ==
  LET m2 == Apply(m, e)
      v  == Verdict(m2, e)
  IN  IF m.bad = "ok" /\ v # "ok" THEN [m2 EXCEPT !.bad = v] ELSE m2
=============================================================================
