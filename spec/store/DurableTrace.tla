---------------------------- MODULE DurableTrace ----------------------------
(* Folds file-system event logs recorded from the real store (strace / interposition) through the   *)
(* Durable monitor; prints, per log, the verdict and the crash images at every prefix (for           *)
(* materialisation by the harness).                                                                 *)
EXTENDS Integers, Sequences, FiniteSets, TLC, Json, IOUtils

D == INSTANCE Durable
Traces == JsonDeserialize(IOEnv.TRACE_FILE)
VARIABLE i

PathSet(tr) == {tr.paths[j] : j \in 1..Len(tr.paths)}

RECURSIVE Fold(_, _, _, _, _)
Fold(m, at, evs, k, imgs) ==
  IF k > Len(evs) THEN <<m, at, imgs>>
  ELSE LET m2 == D!Step(m, evs[k])
           im == [p \in DOMAIN m2.kern |-> D!Images(m2, p)]
       IN  Fold(m2, IF at = 0 /\ m2.bad # "ok" THEN k ELSE at, evs, k + 1,
                Append(imgs, [inflight |-> (IF m2.inflight # "" THEN m2.inflight
                                           ELSE IF m2.ginfl # {} THEN CHOOSE g \in m2.ginfl : TRUE ELSE ""), done |-> m2.done, torn |-> m2.torn, images |-> im]))

Judge(tr) == LET r == Fold(D!MonInit(PathSet(tr)), 0, tr.events, 1, <<>>)
             IN  [tid |-> tr.tid, bad |-> r[1].bad, at |-> r[2], prefixes |-> r[3]]

Init == i = 0
Next == /\ i < Len(Traces)
        /\ i' = i + 1
        /\ PrintT(ToJson(Judge(Traces[i + 1])))
=============================================================================
