-------------------------------- MODULE Table --------------------------------
(***************************************************************************)
(* Implementation-shaped model of klongpy/db/sys_fn_db.py Table:            *)
(*   _df (committed rows), buffer (rows inserted since the last commit),    *)
(*   idx_cols, columns; commit() on the read paths.                         *)
(* One action per Klong-level operation; each computes the observation the  *)
(* CODE would produce and feeds [op, args, obs] to the monitor TableAbs:    *)
(* the invariant Good states that buffering is unobservable.                *)
(* Switches describe the tree under test:                                   *)
(*   GetCommits   Table.get  (t?name)  commits the buffer first             *)
(*   SetCommits   Table.set  (t,name,,v) commits the buffer first           *)
(*   DedupBuffer  commit() keeps the last buffered row per key              *)
(* (all FALSE = the pinned tree, all TRUE = the tree after the fixes).      *)
(***************************************************************************)
EXTENDS Integers, Sequences, FiniteSets, TLC, Json

CONSTANTS Cols0, Rows0,        \* initial columns and rows
          InsertRows,          \* set of rows that may be inserted singly
          Batches,             \* set of sequences of rows that may be inserted as a batch
          IndexChoices,        \* set of column-name sequences for .index
          NewColName, NewColVals,  \* added column: name and a sequence of cells (a prefix is used)
          ReadCols,            \* set of column names that may be read (incl. one that does not exist)
          MaxOps, GetCommits, SetCommits, DedupBuffer, RecordHist

A == INSTANCE TableAbs

Err == [k |-> "error", v |-> 0]
Undef == [k |-> "undef", v |-> 0]
OkObs == [k |-> "ok", v |-> 0]
SeqObs(q) == [k |-> "seq", v |-> q]
IntObs(n) == [k |-> "int", v |-> n]

VARIABLES cols, df, buf, idx, poisoned, nops, mon, hist
vars == <<cols, df, buf, idx, poisoned, nops, mon, hist>>

Init == /\ cols = Cols0 /\ df = Rows0 /\ buf = <<>> /\ idx = <<>> /\ poisoned = FALSE /\ nops = 0
        /\ mon = A!Step(A!MonInit, [op |-> "create", cols |-> Cols0, rows |-> Rows0])
        /\ hist = <<>>

M == [cols |-> cols, rows |-> df, idx |-> idx, bad |-> "ok", live |-> TRUE]   \* view of _df for TableAbs operators

KeyOf(row) == A!Key(M, row)
DupKeysIn(rs) == \E i, j \in 1..Len(rs) : i # j /\ A!KeyEq(KeyOf(rs[i]), KeyOf(rs[j]))
\* keep the last row per key
RECURSIVE KeepLast(_)
KeepLast(rs) == IF rs = <<>> THEN <<>>
                ELSE IF \E j \in 2..Len(rs) : A!KeyEq(KeyOf(rs[j]), KeyOf(Head(rs))) THEN KeepLast(Tail(rs))
                ELSE <<Head(rs)>> \o KeepLast(Tail(rs))

\* commit(): <<rows after commit, "ok" | "error">>
Committed ==
  IF buf = <<>> THEN <<df, "ok">>
  ELSE IF idx = <<>> THEN <<df \o buf, "ok">>
  ELSE IF DupKeysIn(buf) /\ ~DedupBuffer THEN <<df, "error">>     \* pandas: cannot reindex on duplicate labels
  ELSE <<A!InsertAll(M, IF DedupBuffer THEN KeepLast(buf) ELSE buf).rows, "ok">>

Rec(e) == /\ mon' = A!Step(mon, e)
          /\ hist' = IF RecordHist THEN Append(hist, e) ELSE hist
          /\ nops' = nops + 1

DoCommit == IF Committed[2] = "ok" THEN df' = Committed[1] /\ buf' = <<>> ELSE UNCHANGED <<df, buf>>

\* rows inserted after a column was added must have the new width; the menu rows have the old width,
\* so inserts are disabled once the column exists
Narrow == ~A!HasCol(cols, NewColName)

Insert(row) ==
  /\ nops < MaxOps /\ Narrow
  /\ buf' = Append(buf, row)
  /\ Rec([op |-> "insert", row |-> row])
  /\ UNCHANGED <<cols, df, idx, poisoned>>

InsertB(rows) ==
  /\ nops < MaxOps /\ Narrow
  /\ buf' = buf \o rows
  /\ Rec([op |-> "insertb", rows |-> rows])
  /\ UNCHANGED <<cols, df, idx, poisoned>>

ReadCol(name) ==
  /\ nops < MaxOps
  /\ IF GetCommits
     THEN /\ DoCommit
          /\ Rec([op |-> "col", name |-> name,
                  obs |-> IF Committed[2] # "ok" THEN Err
                          ELSE IF ~A!HasCol(cols, name) THEN Undef
                          ELSE SeqObs([i \in 1..Len(Committed[1]) |-> Committed[1][i][A!Pos(cols, name)].s])])
     ELSE /\ UNCHANGED <<df, buf>>
          /\ Rec([op |-> "col", name |-> name,
                  obs |-> IF ~A!HasCol(cols, name) THEN Undef
                          ELSE SeqObs([i \in 1..Len(df) |-> df[i][A!Pos(cols, name)].s])])
  /\ UNCHANGED <<cols, idx, poisoned>>

Count ==
  /\ nops < MaxOps
  /\ DoCommit
  /\ Rec([op |-> "count", obs |-> IF Committed[2] = "ok" THEN IntObs(Len(Committed[1])) ELSE Err])
  /\ UNCHANGED <<cols, idx, poisoned>>

Schema ==
  /\ nops < MaxOps
  /\ Rec([op |-> "schema", obs |-> SeqObs(cols)])
  /\ UNCHANGED <<cols, df, buf, idx, poisoned>>

Index(ic) ==
  /\ nops < MaxOps
  /\ IF idx # <<>> THEN /\ Rec([op |-> "index", cols |-> ic, obs |-> Err]) /\ UNCHANGED <<df, buf, idx>>
     ELSE IF Committed[2] # "ok" THEN /\ Rec([op |-> "index", cols |-> ic, obs |-> Err]) /\ UNCHANGED <<df, buf, idx>>
     ELSE LET m1 == [M EXCEPT !.rows = Committed[1], !.idx = ic] IN
          /\ df' = A!SortRows(m1, Committed[1]) /\ buf' = <<>> /\ idx' = ic
          /\ Rec([op |-> "index", cols |-> ic, obs |-> SeqObs(ic)])
  /\ UNCHANGED <<cols, poisoned>>

RIndex ==
  /\ nops < MaxOps
  /\ IF idx = <<>> THEN /\ Rec([op |-> "rindex", obs |-> IntObs(0)]) /\ UNCHANGED <<df, buf, idx>>
     ELSE IF Committed[2] # "ok" THEN /\ Rec([op |-> "rindex", obs |-> Err]) /\ UNCHANGED <<df, buf, idx>>
     ELSE /\ DoCommit /\ idx' = <<>> /\ Rec([op |-> "rindex", obs |-> IntObs(1)])
  /\ UNCHANGED <<cols, poisoned>>

AddCol ==
  /\ nops < MaxOps /\ ~A!HasCol(cols, NewColName)
  /\ LET n  == Len(mon.rows)                 \* the user supplies one value per row of the table as she sees it
         vs == SubSeq(NewColVals, 1, n)
         base == IF SetCommits THEN Committed ELSE <<df, "ok">> IN
     /\ n <= Len(NewColVals)
     /\ IF base[2] # "ok" \/ Len(base[1]) # n
        THEN /\ Rec([op |-> "addcol", name |-> NewColName, vals |-> vs, obs |-> Err]) /\ UNCHANGED <<cols, df, buf>>
        ELSE /\ cols' = Append(cols, NewColName)
             /\ df' = [i \in 1..n |-> Append(base[1][i], vs[i])]
             /\ buf' = IF SetCommits THEN <<>> ELSE buf
             /\ Rec([op |-> "addcol", name |-> NewColName, vals |-> vs, obs |-> OkObs])
  /\ UNCHANGED <<idx, poisoned>>

Sql ==
  /\ nops < MaxOps
  /\ DoCommit
  /\ Rec([op |-> "sql", obs |-> IF Committed[2] = "ok" THEN SeqObs(A!TextRows(Committed[1])) ELSE Err])
  /\ UNCHANGED <<cols, idx, poisoned>>

Next == \/ \E r \in InsertRows : Insert(r)
        \/ \E b \in Batches : InsertB(b)
        \/ \E c \in ReadCols : ReadCol(c)
        \/ Count \/ Schema \/ RIndex \/ AddCol \/ Sql
        \/ \E ic \in IndexChoices : Index(ic)

Spec == Init /\ [][Next]_vars

Good == mon.bad = "ok"
Judged == mon.live                      \* (companion) some histories leave the domain: expected
Emit == (RecordHist /\ nops = MaxOps) => PrintT(ToJson([hist |-> hist, live |-> mon.live]))
=============================================================================
