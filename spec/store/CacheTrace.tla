----------------------------- MODULE CacheTrace -----------------------------
(***************************************************************************)
(* Conformance (code -> spec) for C16 / C18: complete call histories and    *)
(* final states recorded from the real FileCache are judged against         *)
(* CacheAbs (register linearizability, final agreement, accounting).        *)
(* One TLC state per recorded run; verdicts are total and name the first    *)
(* failing clause.                                                          *)
(***************************************************************************)
EXTENDS Integers, Sequences, FiniteSets, TLC, Json, IOUtils

Abs == INSTANCE CacheAbs

Traces == JsonDeserialize(IOEnv.TRACE_FILE)

VARIABLE i

FileSet(tr) == {tr.files[j] : j \in 1..Len(tr.files)}
HeapSet(tr) == {tr.heapfiles[j] : j \in 1..Len(tr.heapfiles)}

\* sequential runs also record the accounting fields after every call (each call is quiescent)
SnapsOk(tr, F) ==
  \A j \in 1..Len(tr.snaps) :
     LET sn == tr.snaps[j] IN
     Abs!AccountingOk(sn.mem, sn.maxmem, [f \in F |-> sn.bytes[f]],
                      {sn.heapfiles[q] : q \in 1..Len(sn.heapfiles)}, F)

Judge(tr) ==
  LET F == FileSet(tr)
      initd == [f \in F |-> tr.initdisk[f]]
      disk  == [f \in F |-> tr.disk[f]]
      cach  == [f \in F |-> tr.cached[f]]
      byt   == [f \in F |-> tr.bytes[f]]
  IN  CASE tr.hung > 0 -> "CallNeverReturned"
        [] \E h \in 1..Len(tr.hist) : tr.hist[h].out = "hung" -> "CallNeverReturned"
        [] ~Abs!NoInternalErrorH(tr.hist) -> "InternalError"
        [] tr.minmem < 0 -> "MemNegative"
        [] ~Abs!AccountingOk(tr.mem, tr.maxmem, byt, HeapSet(tr), F) -> "Accounting"
        [] "snaps" \in DOMAIN tr /\ ~SnapsOk(tr, F) -> "AccountingAfterCall"
        [] ~Abs!LinearizableH(tr.hist, initd, disk, cach, F) -> "NotLinearizable"
        [] OTHER -> "ok"

Init == i = 0
Next == /\ i < Len(Traces)
        /\ i' = i + 1
        /\ PrintT(ToJson([tid |-> Traces[i + 1].tid, bad |-> Judge(Traces[i + 1])]))
=============================================================================
