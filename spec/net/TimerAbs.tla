------------------------------ MODULE TimerAbs ------------------------------
(***************************************************************************)
(* C15 - the tick rule of .timer / .timerc, written as a MONITOR: a state   *)
(* record `m` and a total function Step(m, e) over observable events.  The  *)
(* implementation-shaped model (Timer.tla) feeds its own events through    *)
(* it (design-level check) and TimerTrace.tla feeds the events recorded    *)
(* from the real code through it (conformance), so both are judged by the  *)
(* same statement of the property.                                         *)
(*                                                                         *)
(* Time is counted in HALF-STEPS T: T = 2n is "exactly n quanta", T = 2n-1 *)
(* is "n quanta minus less than the event loop's clock resolution".        *)
(* A timer started at quantum s with interval K quanta (K > 0) has         *)
(* boundaries s + k*K, k = 1, 2, ...; a tick within clock resolution       *)
(* before a boundary is attributed to that boundary (asyncio dispatches a  *)
(* handle whose deadline is less than one resolution ahead).               *)
(*                                                                         *)
(* Events (records):                                                       *)
(*   [ev |-> "start",  tm, at, K]          .timer returned handle tm       *)
(*   [ev |-> "tick",   tm, at, ver]        callback of tm invoked; ver =   *)
(*                                         version of the named callback   *)
(*   [ev |-> "ret",    tm, at, r]          callback returned: r=1 true,    *)
(*                                         r=0 false, r=2 raised           *)
(*   [ev |-> "cancel", tm, at, res]        .timerc(tm) returned res        *)
(*   [ev |-> "redef",  at]                 the named callback was redefined*)
(*   [ev |-> "idle",   at]                 the loop has run everything due *)
(***************************************************************************)
EXTENDS Integers, Sequences

Q(T)  == (T + 1) \div 2      \* quanta, rounding "just before n" up to n
QF(T) == T \div 2            \* quanta fully elapsed

\* lbs: the set of boundary indices the last tick may be attributed to (see Admissible)
NewTimer == [st |-> "new", K |-> 0, start |-> 0, lbs |-> {0}, inCb |-> FALSE,
             lastEnd |-> -1, since |-> 0]

MonInit(Timers) == [ver |-> 0, bad |-> "ok", tm |-> [t \in Timers |-> NewTimer]]

\* A tick at T = 2n-1 ("just before quantum n") is either a late tick for the boundary below or a
\* tick dispatched within clock resolution before the boundary at n.  Both attributions are
\* candidates; the monitor keeps every attribution that is consistent with the rules so far and
\* reports a violation only when none is left.
BndLo(t, T) == (QF(T) - t.start) \div t.K
BndHi(t, T) == (Q(T) - t.start) \div t.K
\* boundaries reached while the last callback ran: certainly (EndLo) / up to clock resolution (EndHi);
\* a callback that ends on a boundary (up to clock resolution) may or may not count it as missed
EndLo(t)    == (QF(t.lastEnd) - t.start) \div t.K
EndHi(t)    == (Q(t.lastEnd) - t.start) \div t.K
EndOnB(t)   == (Q(t.lastEnd) - t.start) % t.K = 0
NotCatchUp(t, b) == t.lastEnd < 0 \/ b > EndLo(t) \/ (EndOnB(t) /\ b = EndHi(t))
Admissible(t, T) == {b \in {BndLo(t, T), BndHi(t, T)} :
                       b >= 1 /\ NotCatchUp(t, b) /\ \E l \in t.lbs : b > l}

TickVerdict(m, e) ==
  LET t == m.tm[e.tm] IN
  IF t.st = "new" THEN "TickBeforeStart"
  ELSE IF t.st = "stopped" THEN "TickAfterStop"
  ELSE IF t.inCb THEN "Overlap"
  ELSE IF e.ver # m.ver THEN "StaleCallback"
  ELSE IF t.K = 0 THEN "ok"
  ELSE IF Admissible(t, e.at) # {} THEN "ok"
  ELSE IF BndHi(t, e.at) < 1 THEN "EarlyTick"
  ELSE IF \A l \in t.lbs : BndHi(t, e.at) <= l THEN "DoubleTick"
  ELSE "CatchUpTick"

\* attributions of the last tick that are consistent with the loop being idle at T:
\* every boundary reached by T has been ticked or was passed while a callback ran
IdleOk(t, T) == LET nb == (QF(T) - t.start) \div t.K IN
                {l \in t.lbs : nb < 1 \/ l >= nb \/ (t.lastEnd >= 0 /\ EndHi(t) >= nb)}

IdleVerdict(m, e) ==
  IF \E u \in DOMAIN m.tm :
        LET t == m.tm[u] IN
        /\ t.st = "live" /\ ~t.inCb
        /\ IF t.K = 0 THEN t.since = 0 ELSE IdleOk(t, e.at) = {}
  THEN "MissedTick" ELSE "ok"

CancelVerdict(m, e) ==
  LET t == m.tm[e.tm] IN
  CASE t.st = "live"    -> IF e.res = 1 THEN "ok" ELSE "CancelLiveReturned0"
    [] t.st = "stopped" -> IF e.res = 0 THEN "ok" ELSE "CancelStoppedReturned1"
    [] t.st = "new"     -> IF e.res = 0 THEN "ok" ELSE "CancelStoppedReturned1"
    [] OTHER            -> "ok"     \* after the callback raised the property is silent

Verdict(m, e) ==
  CASE e.ev = "tick"   -> TickVerdict(m, e)
    [] e.ev = "idle"   -> IdleVerdict(m, e)
    [] e.ev = "cancel" -> CancelVerdict(m, e)
    [] e.ev = "ret"    -> IF m.tm[e.tm].inCb THEN "ok" ELSE "RetWithoutTick"
    [] e.ev = "start"  -> IF m.tm[e.tm].st = "new" THEN "ok" ELSE "StartTwice"
    [] OTHER           -> "ok"

Apply(m, e) ==
  CASE e.ev = "start" ->
         [m EXCEPT !.tm[e.tm] = [NewTimer EXCEPT !.st = "live", !.K = e.K, !.start = QF(e.at)]]
    [] e.ev = "tick" ->
         [m EXCEPT !.tm[e.tm].inCb = TRUE,
                   !.tm[e.tm].since = @ + 1,
                   !.tm[e.tm].lbs = IF m.tm[e.tm].K = 0 \/ Admissible(m.tm[e.tm], e.at) = {}
                                    THEN @ ELSE Admissible(m.tm[e.tm], e.at)]
    [] e.ev = "ret" ->
         [m EXCEPT !.tm[e.tm].inCb = FALSE,
                   !.tm[e.tm].lastEnd = e.at,
                   !.tm[e.tm].st = IF @ = "live" THEN (CASE e.r = 0 -> "stopped"
                                                          [] e.r = 2 -> "unk"
                                                          [] OTHER   -> "live")
                                   ELSE @]
    [] e.ev = "cancel" ->
         [m EXCEPT !.tm[e.tm].st = IF @ = "new" THEN "new" ELSE "stopped"]
    [] e.ev = "redef" -> [m EXCEPT !.ver = @ + 1]
    [] e.ev = "idle" ->
         [m EXCEPT !.tm = [u \in DOMAIN m.tm |->
                             LET t == m.tm[u] IN
                             [t EXCEPT !.since = 0,
                                       !.lbs = IF t.st = "live" /\ ~t.inCb /\ t.K > 0 /\ IdleOk(t, e.at) # {}
                                               THEN IdleOk(t, e.at) ELSE @]]]
    [] OTHER -> m

\* The monitor step: the first failing clause is latched in `bad`; the state keeps advancing
\* so that the rest of a trace is still interpreted.
Step(m, e) ==
  LET v  == Verdict(m, e)
      m2 == Apply(m, e)
  IN  IF m.bad = "ok" /\ v # "ok" THEN [m2 EXCEPT !.bad = v] ELSE m2
=============================================================================
