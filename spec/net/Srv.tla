-------------------------------- MODULE Srv --------------------------------
(***************************************************************************)
(* Beyond the listed properties: the life cycle of ONE connection accepted  *)
(* by the IPC server (TcpServerConnectionHandler.handle_client -> a         *)
(* NetworkClient in its server role), as the application sees it through    *)
(* the hooks .srv.o (connect), .srv.e (error), .srv.c (close) and through   *)
(* the commands it is asked to evaluate.                                    *)
(*                                                                         *)
(* What arrives on the connection (the schedule):                           *)
(*   "cmd"      a command that evaluates                                    *)
(*   "fail"     a command whose evaluation raises                           *)
(*   "closereq" the client's close request (KGRemoteCloseConnection)        *)
(*   "eof"      end of stream on a frame boundary                           *)
(*   "cut"      end of stream inside a frame                                *)
(* What the application observes (the log), in order:                       *)
(*   "o" | "e" | "c" hooks, "x" a command being evaluated, "r" a response   *)
(*   frame leaving (for a command or as the acknowledgement of closereq)    *)
(*                                                                         *)
(* The model is the code's behaviour, written down after reading it:        *)
(*   - the connect hook runs once, before anything else;                    *)
(*   - commands are evaluated one at a time in arrival order, each answered *)
(*     by exactly one response before the next is looked at;                *)
(*   - a command that raises is NOT answered: the connection is torn down   *)
(*     (error hook, then close hook) and later input is ignored;            *)
(*   - a close request is acknowledged, then only the close hook runs;      *)
(*   - end of stream (clean or inside a frame) runs the error hook, then    *)
(*     the close hook;                                                      *)
(*   - the close hook runs exactly once and is the last thing observed.     *)
(* Rule is the same statement as a judgement over a recorded log.           *)
(***************************************************************************)
EXTENDS Integers, Sequences, FiniteSets, TLC, Json

CONSTANTS MaxIn
Inputs == {"cmd", "fail", "closereq", "eof", "cut"}

VARIABLES st, inp, log
vars == <<st, inp, log>>

Init == st = "open" /\ inp = <<>> /\ log = <<"o">>

Effect(a) ==
  CASE a = "cmd"      -> <<"open", <<"x", "r">>>>
    [] a = "fail"     -> <<"closed", <<"x", "e", "c">>>>
    [] a = "closereq" -> <<"closed", <<"r", "c">>>>
    [] OTHER          -> <<"closed", <<"e", "c">>>>            \* eof, cut

Arrive(a) ==
  /\ Len(inp) < MaxIn
  /\ inp' = Append(inp, a)
  /\ IF st = "open" THEN st' = Effect(a)[1] /\ log' = log \o Effect(a)[2]
     ELSE UNCHANGED <<st, log>>                                \* nobody is listening any more
Next == \E a \in Inputs : Arrive(a)

\* ---- the judgement over a log (also applied to logs recorded from the real server) ----
Count(q, x) == Cardinality({i \in 1..Len(q) : q[i] = x})
RECURSIVE Pairs(_, _)
\* between the connect hook and the ending every evaluated command is followed by its response
Pairs(q, i) == IF i > Len(q) THEN TRUE
               ELSE IF q[i] = "x" THEN i + 1 <= Len(q) /\ q[i + 1] = "r" /\ Pairs(q, i + 2)
               ELSE FALSE
Ending(q) == q \in {<<>>, <<"e", "c">>, <<"r", "c">>, <<"x", "e", "c">>}
Rule(q) ==
  /\ Len(q) >= 1 /\ q[1] = "o" /\ Count(q, "o") = 1
  /\ Count(q, "c") <= 1 /\ (Count(q, "c") = 1 => q[Len(q)] = "c")
  /\ \E k \in 1..(Len(q) + 1) : Pairs(SubSeq(q, 2, k - 1), 1) /\ Ending(SubSeq(q, k, Len(q)))

LogObeysRule == Rule(log)
ClosedForGood == [][st = "closed" => st' = "closed" /\ log' = log]_vars
Emit == Len(inp) = MaxIn => PrintT(ToJson([inp |-> inp, log |-> log]))
=============================================================================
