--------------------------------- MODULE Ipc ---------------------------------
(***************************************************************************)
(* C14 - implementation-shaped model of klongpy/sys_fn_ipc.py NetworkClient *)
(* on the calling side: caller threads in call(), the io loop running the   *)
(* send coroutines and the listener task (_run / _listen /                   *)
(* _cleanup_pending_responses), and a peer that answers in any order,        *)
(* fails an evaluation, or loses the connection at any point.               *)
(*                                                                         *)
(* Caller thread (each step is a separate action: other threads and the     *)
(* loop can run in between):                                                *)
(*   CCheck     if not self.is_open(): raise                                *)
(*   CRegister  self.pending_responses[msg_id] = future                     *)
(*   CSchedule  asyncio.run_coroutine_threadsafe(...) ; .result() blocks    *)
(* Loop thread:                                                             *)
(*   LSend      send_message_and_get_result starts: stream_send_msg writes  *)
(*              the frame; writer.drain() returns at once or (blk) waits    *)
(*   LDrained   a waiting drain() returns (the loop ran other callbacks      *)
(*              in between, e.g. the listener saw the end of the stream)    *)
(*   LDeliver   _listen: a complete frame -> pending_responses.pop, resolve *)
(*   LEof       _listen raises -> _run: writer = None, cleanup begins       *)
(*   LClean     one iteration of `for future in pending_responses.values()` *)
(*   LCleanEnd  pending_responses.clear(), listener task ends               *)
(*   LWake      the caller's coroutine resumes, call() returns / raises     *)
(*   a delivered acknowledgement of a close request (or a close request     *)
(*   sent by the peer) ends the listener like LEof, with the close          *)
(*   exception as the error of the other pending calls                      *)
(* Peer:                                                                    *)
(*   PRespond, PFail (server-side evaluation failed: connection torn down), *)
(*   PCut (connection lost; possibly inside a response frame)               *)
(*                                                                         *)
(* SnapshotCleanup = TRUE models the tree after the fix (cleanup iterates   *)
(* over a snapshot and clears the table first); FALSE models the pinned     *)
(* tree, where a registration by a caller thread in the middle of the       *)
(* iteration aborts the cleanup (RuntimeError: dictionary changed size).    *)
(* Every call event is fed to the monitor IpcCallAbs.                        *)
(***************************************************************************)
EXTENDS Integers, Sequences, FiniteSets, TLC, Json

CONSTANTS Callers, SnapshotCleanup, RecordHist, PeerCloses,
          Closers        \* callers that run close(): their request is KGRemoteCloseConnection, whose acknowledgement makes the
                         \* listener stop (running = False) and fail every other pending call

A == INSTANCE IpcCallAbs

VARIABLES cpc,      \* [Callers -> "idle" | "checked" | "registered" | "scheduled" | "draining" | "sent" | "done"]
          fut,      \* [Callers -> "none" | "pending" | "value" | "exc"]   the asyncio future of the call
          val,      \* [Callers -> id carried by the resolved future]
          pend,     \* set of ids in pending_responses
          loopq,    \* FIFO of callers whose coroutine is scheduled on the loop
          ncw,      \* NetworkClient.writer is not None
          lst,      \* "listening" | "cleaning" | "exited" | "crashed"
          todo,     \* ids the running cleanup iteration still has to visit
          size0,    \* size of pending_responses when the iteration began
          wire,     \* requests that reached the peer
          answered, \* requests the peer has answered
          resp,     \* frames fed to the reader and not yet consumed: sequence of [id, full]
          eof,      \* the peer side of the connection is gone
          mon, hist
vars == <<cpc, fut, val, pend, loopq, ncw, lst, todo, size0, wire, answered, resp, eof, mon, hist>>

Init ==
  /\ cpc = [c \in Callers |-> "idle"] /\ fut = [c \in Callers |-> "none"] /\ val = [c \in Callers |-> 0]
  /\ pend = {} /\ loopq = <<>> /\ ncw = TRUE /\ lst = "listening" /\ todo = {} /\ size0 = 0
  /\ wire = {} /\ answered = {} /\ resp = <<>> /\ eof = FALSE
  /\ mon = A!MonInit(Callers) /\ hist = <<>>

Rec(step, evs) ==
  /\ mon' = IF Len(evs) = 0 THEN mon ELSE A!Step(mon, evs[1])
  /\ hist' = IF RecordHist THEN Append(hist, step) ELSE hist

\* conn_provider.is_open(): the provider's writer exists and is not closing; nothing in the failure
\* paths closes it, so it stays open
ProvOpen == TRUE

CCheck(c) ==
  /\ cpc[c] = "idle"
  /\ IF ProvOpen THEN cpc' = [cpc EXCEPT ![c] = "checked"] /\ Rec([a |-> "ccheck", c |-> c], <<[ev |-> "begin", c |-> c]>>)
     ELSE cpc' = [cpc EXCEPT ![c] = "done"] /\ Rec([a |-> "ccheck", c |-> c], <<[ev |-> "end", c |-> c, out |-> "exc", id |-> 0]>>)
  /\ UNCHANGED <<fut, val, pend, loopq, ncw, lst, todo, size0, wire, answered, resp, eof>>

CRegister(c) ==
  /\ cpc[c] = "checked"
  /\ cpc' = [cpc EXCEPT ![c] = "registered"]
  /\ fut' = [fut EXCEPT ![c] = "pending"]
  /\ pend' = pend \cup {c}
  /\ Rec([a |-> "cregister", c |-> c], <<>>)
  /\ UNCHANGED <<val, loopq, ncw, lst, todo, size0, wire, answered, resp, eof>>

CSchedule(c) ==
  /\ cpc[c] = "registered"
  /\ cpc' = [cpc EXCEPT ![c] = "scheduled"]
  /\ loopq' = Append(loopq, c)
  /\ Rec([a |-> "cschedule", c |-> c], <<>>)
  /\ UNCHANGED <<fut, val, pend, ncw, lst, todo, size0, wire, answered, resp, eof>>

\* the loop is single-threaded: while the cleanup iteration runs no other loop callback does
LoopFree == lst # "cleaning"

LSend(c, blk) ==
  /\ LoopFree /\ loopq # <<>> /\ Head(loopq) = c
  /\ loopq' = Tail(loopq)
  /\ IF ncw
     THEN /\ cpc' = [cpc EXCEPT ![c] = IF blk THEN "draining" ELSE "sent"]
          /\ wire' = IF eof \/ blk THEN wire ELSE wire \cup {c}
          /\ Rec([a |-> "lsend", c |-> c, blk |-> blk], <<>>)
     ELSE /\ ~blk
          /\ cpc' = [cpc EXCEPT ![c] = "done"]                 \* self.writer is None: AttributeError
          /\ wire' = wire
          /\ Rec([a |-> "lsend", c |-> c, blk |-> blk], <<[ev |-> "end", c |-> c, out |-> "exc", id |-> 0]>>)
  /\ UNCHANGED <<fut, val, pend, ncw, lst, todo, size0, answered, resp, eof>>

\* the transport's buffer has been flushed (large request / slow peer): the coroutine resumes after drain()
LDrained(c) ==
  /\ LoopFree /\ cpc[c] = "draining"
  /\ cpc' = [cpc EXCEPT ![c] = "sent"]
  /\ wire' = IF eof THEN wire ELSE wire \cup {c}
  /\ Rec([a |-> "ldrained", c |-> c], <<>>)
  /\ UNCHANGED <<fut, val, pend, loopq, ncw, lst, todo, size0, answered, resp, eof>>

\* the listener stops after this frame: KGRemoteCloseConnectionException -> _run: running = False, writer = None, cleanup
StopsListener(id) == id \in Closers \/ id = 0
LDeliver ==
  /\ LoopFree /\ lst = "listening" /\ resp # <<>> /\ Head(resp).full
  /\ LET id == Head(resp).id
         hit == id \in pend
         pend1 == IF hit THEN pend \ {id} ELSE pend
         fut1 == IF hit THEN [fut EXCEPT ![id] = "value"] ELSE fut IN
     /\ val' = IF hit THEN [val EXCEPT ![id] = id] ELSE val
     /\ IF StopsListener(id) /\ (hit \/ id = 0)
        THEN /\ ncw' = FALSE /\ resp' = <<>>
             /\ IF SnapshotCleanup
                THEN /\ fut' = [c \in Callers |-> IF c \in pend1 /\ fut1[c] = "pending" THEN "exc" ELSE fut1[c]]
                     /\ pend' = {} /\ lst' = "exited" /\ UNCHANGED <<todo, size0>>
                ELSE /\ lst' = "cleaning" /\ todo' = pend1 /\ size0' = Cardinality(pend1) /\ fut' = fut1 /\ pend' = pend1
        ELSE /\ resp' = Tail(resp) /\ pend' = pend1 /\ fut' = fut1 /\ UNCHANGED <<ncw, lst, todo, size0>>
     /\ Rec([a |-> "ldeliver", id |-> id], <<>>)
  /\ UNCHANGED <<cpc, loopq, wire, answered, eof>>

\* end of stream (possibly inside a frame): IncompleteReadError -> KlongIPCConnectionFailureException
LEof ==
  /\ LoopFree /\ lst = "listening" /\ eof /\ (IF resp = <<>> THEN TRUE ELSE ~Head(resp).full)
  /\ ncw' = FALSE
  /\ resp' = <<>>
  /\ IF SnapshotCleanup
     THEN /\ fut' = [c \in Callers |-> IF c \in pend /\ fut[c] = "pending" THEN "exc" ELSE fut[c]]
          /\ pend' = {} /\ lst' = "exited" /\ UNCHANGED <<todo, size0>>
     ELSE /\ lst' = "cleaning" /\ todo' = pend /\ size0' = Cardinality(pend) /\ UNCHANGED <<fut, pend>>
  /\ Rec([a |-> "leof"], <<>>)
  /\ UNCHANGED <<cpc, val, loopq, wire, answered, eof>>

\* pinned tree: one step of `for future in self.pending_responses.values(): future.set_exception(e)`
LClean(c) ==
  /\ lst = "cleaning" /\ c \in todo
  /\ IF Cardinality(pend) # size0
     THEN /\ lst' = "crashed" /\ todo' = {} /\ UNCHANGED fut      \* RuntimeError: the listener task dies here
     ELSE /\ fut' = [fut EXCEPT ![c] = "exc"] /\ todo' = todo \ {c} /\ UNCHANGED lst
  /\ Rec([a |-> "lclean", c |-> c], <<>>)
  /\ UNCHANGED <<cpc, val, pend, loopq, ncw, size0, wire, answered, resp, eof>>

LCleanEnd ==
  /\ lst = "cleaning" /\ todo = {}
  /\ IF Cardinality(pend) # size0 THEN lst' = "crashed" /\ UNCHANGED pend
     ELSE lst' = "exited" /\ pend' = {}
  /\ Rec([a |-> "lcleanend"], <<>>)
  /\ UNCHANGED <<cpc, fut, val, loopq, ncw, todo, size0, wire, answered, resp, eof>>

LWake(c) ==
  /\ LoopFree /\ cpc[c] = "sent" /\ fut[c] \in {"value", "exc"}
  /\ cpc' = [cpc EXCEPT ![c] = "done"]
  /\ Rec([a |-> "lwake", c |-> c], <<[ev |-> "end", c |-> c, out |-> fut[c], id |-> val[c]]>>)
  /\ UNCHANGED <<fut, val, pend, loopq, ncw, lst, todo, size0, wire, answered, resp, eof>>

PRespond(c) ==
  /\ ~eof /\ c \in wire \ answered
  /\ answered' = answered \cup {c}
  /\ resp' = Append(resp, [id |-> c, full |-> TRUE])
  /\ Rec([a |-> "prespond", c |-> c], <<>>)
  /\ UNCHANGED <<cpc, fut, val, pend, loopq, ncw, lst, todo, size0, wire, eof>>

\* the connection is lost: cleanly between frames, or inside the response to c (id / length / body cut)
PCut(c, partial) ==
  /\ ~eof
  /\ eof' = TRUE
  /\ IF partial THEN c \in wire \ answered /\ resp' = Append(resp, [id |-> c, full |-> FALSE]) /\ answered' = answered \cup {c}
     ELSE resp' = resp /\ answered' = answered
  /\ Rec([a |-> "pcut", c |-> c, partial |-> partial], <<>>)
  /\ UNCHANGED <<cpc, fut, val, pend, loopq, ncw, lst, todo, size0, wire>>

\* the peer asks to close the connection (a request, id 0: no caller waits for it)
PCloseReq ==
  /\ ~eof /\ \A k \in 1..Len(resp) : resp[k].id # 0
  /\ resp' = Append(resp, [id |-> 0, full |-> TRUE])
  /\ Rec([a |-> "pclosereq"], <<>>)
  /\ UNCHANGED <<cpc, fut, val, pend, loopq, ncw, lst, todo, size0, wire, answered, eof>>

Next == \/ PeerCloses /\ PCloseReq
        \/ \E c \in Callers : CCheck(c) \/ CRegister(c) \/ CSchedule(c) \/ LClean(c) \/ LWake(c) \/ PRespond(c) \/ LDrained(c)
        \/ \E c \in Callers, blk \in BOOLEAN : LSend(c, blk)
        \/ LDeliver \/ LEof \/ LCleanEnd
        \/ \E c \in Callers, p \in BOOLEAN : PCut(c, p)

\* the run is over: nothing can happen any more
Quiescent == ~ENABLED Next
Spec == Init /\ [][Next]_vars /\ WF_vars(Next)

-----------------------------------------------------------------------------
\* liveness: under weak fairness of the system as a whole (something that can happen eventually does) every call that was
\* started comes to an end
Completes == \A c \in Callers : (cpc[c] \notin {"idle", "done"}) ~> (cpc[c] = "done")
Good == mon.bad = "ok"                                           \* own answer, at most once
\* no caller is left waiting for ever: whenever nothing can happen any more every call has ended
NoHang == Quiescent => \A c \in Callers : cpc[c] \in {"idle", "done"}
Emit == (RecordHist /\ Quiescent) => PrintT(ToJson([steps |-> hist, hung |-> {c \in Callers : cpc[c] \notin {"idle", "done"}}]))
=============================================================================
