------------------------------- MODULE Timer -------------------------------
(***************************************************************************)
(* Implementation-shaped model of klongpy/sys_fn_timer.py                  *)
(*   _call_periodic / run closure / KGTimerHandler.cancel / .timerc        *)
(* on an asyncio event loop.  One action per step of the code:             *)
(*   Start      eval_sys_fn_timer -> _call_periodic (call_at / call_soon)  *)
(*   Tick       the loop dispatches the handle: run() calls fn()           *)
(*   CbCancel   the callback calls .timerc on itself or on another timer   *)
(*   CbRedef    the callback (or anyone) redefines the named callback      *)
(*   CbReturn   fn() returns r after d half-steps; run() re-arms or stops  *)
(*   ExtCancel  .timerc from outside any callback                          *)
(*   Advance    virtual time moves (only when nothing is due)              *)
(* Variant = "pinned": the code as found at the pinned commit              *)
(*             re-arm unconditionally when r is true, with                 *)
(*             delay = I - ((now - start) % I); FloatErr adds the rounding *)
(*             of that expression observed with start = 0.1 (remainder     *)
(*             just below I exactly on a boundary => delay ~ 0).           *)
(* Variant = "fixed":  the code after the fix: commits in /repo            *)
(*             re-arm only if the handle was not cancelled meanwhile, at   *)
(*             start + n*I with n = max(n+1, floor((now-start)/I)+1).      *)
(* Every observable event is fed to the monitor TimerAbs!Step; the          *)
(* invariant Good says the monitor never latched a violated clause.        *)
(***************************************************************************)
EXTENDS Integers, Sequences, FiniteSets, TLC, Json

CONSTANTS Timers,      \* set of timer names, e.g. {"A","B"}
          KOf,         \* [Timers -> Nat] interval in quanta (0 = call_soon timer)
          MaxT,        \* horizon in half-steps
          MaxTicks,    \* bound on the number of callback invocations
          MaxCancels,  \* bound on the number of .timerc calls
          Durations,   \* callback durations in half-steps
          Variant,     \* "pinned" | "fixed"
          FloatErr,    \* BOOLEAN: model float rounding of the re-arm arithmetic
          RecordHist   \* BOOLEAN: keep the behaviour in `hist` (for emission)

Abs == INSTANCE TimerAbs

VARIABLES now, tms, ready, ntodo, iterT0, run, acted, ver, nticks, ncanc, mon, hist
vars == <<now, tms, ready, ntodo, iterT0, run, acted, ver, nticks, ncanc, mon, hist>>

NoTimer == "none"

(* tms[t].pend : deadline of t's handle in the loop's timer heap (-1: none)                *)
(* ready       : the loop's FIFO of handles to run, entries [tm, cancelled]                  *)
(* ntodo       : handles of `ready` that the current loop iteration still has to run        *)
(*               (BaseEventLoop._run_once fixes ntodo = len(_ready) before running them)    *)
Init ==
  /\ now = 0
  /\ tms = [t \in Timers |-> [started |-> FALSE, start |-> 0, deleg |-> FALSE, pend |-> -1, n |-> 0]]
  /\ ready = <<>>
  /\ ntodo = 0
  /\ iterT0 = -1
  /\ run = NoTimer
  /\ acted = FALSE
  /\ ver = 0
  /\ nticks = 0
  /\ ncanc = 0
  /\ mon = Abs!MonInit(Timers)
  /\ hist = <<>>

Log(h, env, evs) == IF RecordHist THEN Append(h, [env |-> env, evs |-> evs]) ELSE h

Feed(m, evs) == IF Len(evs) = 0 THEN m
                ELSE IF Len(evs) = 1 THEN Abs!Step(m, evs[1])
                ELSE Abs!Step(Abs!Step(m, evs[1]), evs[2])

Due(t) == tms[t].pend >= 0 /\ tms[t].pend <= now + 1      \* asyncio: when < time() + resolution
AnyDue == \E t \in Timers : Due(t)
Between == run = NoTimer /\ iterT0 = -1                    \* between two loop iterations
Idle == Between /\ ready = <<>> /\ ~AnyDue

\* KGTimerHandler.cancel: <<new timer record, new ready queue, result>>
\* delegate.cancel() marks the handle cancelled wherever it is (timer heap or ready queue)
CancelOf(t) ==
  IF tms[t].deleg
  THEN <<[tms[t] EXCEPT !.deleg = FALSE, !.pend = -1],
         [k \in 1..Len(ready) |-> IF ready[k].tm = t THEN [ready[k] EXCEPT !.cancelled = TRUE] ELSE ready[k]],
         1>>
  ELSE <<tms[t], ready, 0>>

Start(t) ==
  /\ Between /\ ~tms[t].started /\ now % 2 = 0
  /\ LET K == KOf[t]
         ev == [ev |-> "start", tm |-> t, at |-> now, K |-> K]
     IN /\ tms' = [tms EXCEPT ![t] = [started |-> TRUE, start |-> now \div 2, deleg |-> TRUE,
                                      pend |-> IF K = 0 THEN -1 ELSE now + 2 * K, n |-> 1]]
        /\ ready' = IF K = 0 THEN Append(ready, [tm |-> t, cancelled |-> FALSE]) ELSE ready
        /\ mon' = Feed(mon, <<ev>>)
        /\ hist' = Log(hist, [a |-> "start", tm |-> t, K |-> K], <<ev>>)
  /\ UNCHANGED <<now, ntodo, iterT0, run, acted, ver, nticks, ncanc>>

Advance ==
  /\ Between /\ now < MaxT
  /\ \E T \in (now + 1)..MaxT :
       LET evs == IF Idle THEN <<[ev |-> "idle", at |-> now]>> ELSE <<>> IN
       /\ now' = T
       /\ mon' = Feed(mon, evs)
       /\ hist' = Log(hist, [a |-> "advance", to |-> T], evs)
  /\ UNCHANGED <<tms, ready, ntodo, iterT0, run, acted, ver, nticks, ncanc>>

\* one iteration of the event loop begins: due timer handles join the ready queue (earliest
\* deadline first; the order of equal deadlines is left open), then ntodo is fixed
IterBegin ==
  /\ Between /\ (ready # <<>> \/ AnyDue) /\ nticks < MaxTicks
  /\ LET D == {t \in Timers : Due(t)} IN
     \E ord \in [1..Cardinality(D) -> D] :
        /\ \A j, k \in 1..Cardinality(D) : j < k => (ord[j] # ord[k] /\ tms[ord[j]].pend <= tms[ord[k]].pend)
        /\ ready' = ready \o [k \in 1..Cardinality(D) |-> [tm |-> ord[k], cancelled |-> FALSE]]
        /\ tms' = [t \in Timers |-> IF t \in D THEN [tms[t] EXCEPT !.pend = -1] ELSE tms[t]]
        /\ ntodo' = Len(ready')
  /\ iterT0' = now
  /\ hist' = Log(hist, [a |-> "iter"], <<>>)
  /\ UNCHANGED <<now, run, acted, ver, nticks, ncanc, mon>>

\* the loop pops a cancelled handle: nothing runs
SkipCancelled ==
  /\ run = NoTimer /\ ntodo > 0 /\ Head(ready).cancelled
  /\ ready' = Tail(ready) /\ ntodo' = ntodo - 1
  /\ UNCHANGED <<now, tms, iterT0, run, acted, ver, nticks, ncanc, mon, hist>>

\* the iteration has run its ntodo handles: everything that was due when it began has been served
IterEnd ==
  /\ run = NoTimer /\ iterT0 >= 0 /\ ntodo = 0
  /\ LET ev == [ev |-> "idle", at |-> iterT0] IN
     /\ mon' = Feed(mon, <<ev>>)
     /\ hist' = Log(hist, [a |-> "iterend"], <<ev>>)
  /\ iterT0' = -1
  /\ UNCHANGED <<now, tms, ready, ntodo, run, acted, ver, nticks, ncanc>>

Tick(t) ==
  /\ run = NoTimer /\ ntodo > 0 /\ Head(ready).tm = t /\ ~Head(ready).cancelled
  /\ LET ev == [ev |-> "tick", tm |-> t, at |-> now, ver |-> ver] IN
     /\ run' = t
     /\ acted' = FALSE
     /\ ready' = Tail(ready) /\ ntodo' = ntodo - 1
     /\ nticks' = nticks + 1
     /\ mon' = Feed(mon, <<ev>>)
     /\ hist' = Log(hist, [a |-> "tick", tm |-> t], <<ev>>)
  /\ UNCHANGED <<now, tms, iterT0, ver, ncanc>>

CbCancel(u) ==
  /\ run # NoTimer /\ ~acted /\ tms[u].started /\ ncanc < MaxCancels
  /\ ncanc' = ncanc + 1
  /\ LET c  == CancelOf(u)
         ev == [ev |-> "cancel", tm |-> u, at |-> now, res |-> c[3]] IN
     /\ tms' = [tms EXCEPT ![u] = c[1]]
     /\ ready' = c[2]
     /\ acted' = TRUE
     /\ mon' = Feed(mon, <<ev>>)
     /\ hist' = Log(hist, [a |-> "cbcancel", tm |-> run, target |-> u], <<ev>>)
  /\ UNCHANGED <<now, ntodo, iterT0, run, ver, nticks>>

CbRedef ==
  /\ run # NoTimer /\ ~acted
  /\ LET ev == [ev |-> "redef", at |-> now] IN
     /\ ver' = ver + 1
     /\ acted' = TRUE
     /\ mon' = Feed(mon, <<ev>>)
     /\ hist' = Log(hist, [a |-> "cbredef", tm |-> run], <<ev>>)
  /\ UNCHANGED <<now, tms, ready, ntodo, iterT0, run, nticks, ncanc>>

\* deadline computed by the pinned code when run() re-arms at half-step e
PinnedWhen(r, K, e) ==
  LET I2 == 2 * K
      m  == (e - 2 * r.start) % I2
  IN  IF FloatErr /\ m = 0 THEN {e + I2, e} ELSE {e + I2 - m}

\* boundary index computed by the fixed code:
\*   n = max(n + 1, floor((now - start) / interval + 1e-9) + 1)
\* the slack absorbs float rounding and a dispatch within clock resolution before a boundary
FixedN(r, K, e) ==
  LET fl == (((e + 1) \div 2) - r.start) \div K
  IN  {IF r.n + 1 > fl + 1 THEN r.n + 1 ELSE fl + 1}

CbReturn(d, r) ==
  /\ run # NoTimer
  /\ now + d <= MaxT + 8
  /\ LET t  == run
         K  == KOf[t]
         e  == now + d
         ev == [ev |-> "ret", tm |-> t, at |-> e, r |-> r]
         rec == tms[t]
         soon == Append(ready, [tm |-> t, cancelled |-> FALSE])     \* loop.call_soon(run, handle)
     IN /\ now' = e
        /\ run' = NoTimer
        /\ acted' = FALSE
        /\ mon' = Feed(mon, <<ev>>)
        /\ hist' = Log(hist, [a |-> "cbreturn", tm |-> t, d |-> d, r |-> r], <<ev>>)
        /\ CASE r = 2 -> tms' = tms /\ ready' = ready       \* fn() raised: run() is abandoned
             [] r = 0 -> tms' = [tms EXCEPT ![t] = CancelOf(t)[1]] /\ ready' = CancelOf(t)[2]
             [] r = 1 /\ Variant = "pinned" ->
                  IF K = 0 THEN tms' = [tms EXCEPT ![t] = [rec EXCEPT !.deleg = TRUE]] /\ ready' = soon
                  ELSE /\ ready' = ready
                       /\ \E w \in PinnedWhen(rec, K, e) :
                            tms' = [tms EXCEPT ![t] = [rec EXCEPT !.deleg = TRUE, !.pend = w]]
             [] r = 1 /\ Variant = "fixed" ->
                  IF ~rec.deleg
                  THEN tms' = [tms EXCEPT ![t] = CancelOf(t)[1]] /\ ready' = CancelOf(t)[2]  \* cancelled during fn()
                  ELSE IF K = 0 THEN tms' = tms /\ ready' = soon
                  ELSE /\ ready' = ready
                       /\ \E nn \in FixedN(rec, K, e) :
                            tms' = [tms EXCEPT ![t] = [rec EXCEPT !.n = nn,
                                                                  !.pend = 2 * (rec.start + nn * K)]]
  /\ UNCHANGED <<ntodo, iterT0, ver, nticks, ncanc>>

ExtCancel(u) ==
  /\ Between /\ tms[u].started /\ ncanc < MaxCancels
  /\ ncanc' = ncanc + 1
  /\ LET c  == CancelOf(u)
         ev == [ev |-> "cancel", tm |-> u, at |-> now, res |-> c[3]] IN
     /\ tms' = [tms EXCEPT ![u] = c[1]]
     /\ ready' = c[2]
     /\ mon' = Feed(mon, <<ev>>)
     /\ hist' = Log(hist, [a |-> "extcancel", tm |-> u], <<ev>>)
  /\ UNCHANGED <<now, ntodo, iterT0, run, acted, ver, nticks>>

Next ==
  \/ \E t \in Timers : Start(t) \/ Tick(t) \/ CbCancel(t) \/ ExtCancel(t)
  \/ Advance
  \/ IterBegin
  \/ IterEnd
  \/ SkipCancelled
  \/ CbRedef
  \/ \E d \in Durations, r \in {0, 1, 2} : CbReturn(d, r)

Spec == Init /\ [][Next]_vars

-----------------------------------------------------------------------------
Good == mon.bad = "ok"                   \* the tick rule (TimerAbs) is never violated

\* structural invariants of the model itself
TypeOK ==
  /\ now \in 0..(MaxT + 8 + 64)
  /\ run \in Timers \cup {NoTimer}
  /\ \A t \in Timers : tms[t].pend >= -1

\* reachability companions (vacuity control): negations are expected to be VIOLATED
NeverStops     == ~(\E t \in Timers : mon.tm[t].st = "stopped")
NeverSkips     == ~(\E t \in Timers : (\E l \in mon.tm[t].lbs : l >= 3) /\ nticks <= 2)

\* behaviour emission: terminal states print their history
Terminal == ~ENABLED Next
Emit == (RecordHist /\ Len(hist) > 0 /\ Terminal) => PrintT(ToJson(hist))

\* exploration bound when hist is recorded
HistBound == Len(hist) <= 64
=============================================================================
