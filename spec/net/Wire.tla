-------------------------------- MODULE Wire --------------------------------
(***************************************************************************)
(* C13 (framing) - the IPC byte stream: frames = 16-byte message id,        *)
(* 4-byte big-endian body length, body.  Implementation-shaped model of     *)
(* stream_recv_msg (readexactly(16); readexactly(4); readexactly(len)) fed  *)
(* by a network that delivers the bytes in arbitrary chunks and may end     *)
(* the stream at any byte.                                                  *)
(*                                                                         *)
(* Bytes are identified by their offset in the concatenation of the frames  *)
(* that were sent, so "intact and in order" is a statement about offsets:   *)
(* message k is assembled from exactly the bytes [Start(k), Start(k+1)).    *)
(***************************************************************************)
EXTENDS Integers, Sequences, FiniteSets, TLC, Json

CONSTANTS Lens,        \* sequence of body lengths of the frames sent
          MaxReads,    \* number of network reads the stream is cut into
          EofAt,       \* set of byte offsets at which the peer may end the stream (Total = after everything)
          Cuts,        \* set of byte offsets at which a network read may end (all offsets for short streams)
          RecordHist

Hdr == 20
RECURSIVE StartOf(_)
StartOf(k) == IF k = 1 THEN 0 ELSE StartOf(k - 1) + Hdr + Lens[k - 1]
Total == StartOf(Len(Lens) + 1)

VARIABLES fed,        \* bytes handed to the reader so far (a prefix of the stream)
          eof,        \* the stream has ended
          cons,       \* bytes consumed by readexactly calls
          phase,      \* "id" | "len" | "body" | "failed"
          k,          \* index of the frame being read
          fstart,     \* offset at which the current frame's id began
          delivered,  \* sequence of [k, from, to]: messages returned by stream_recv_msg
          nreads, hist
vars == <<fed, eof, cons, phase, k, fstart, delivered, nreads, hist>>

Init == fed = 0 /\ eof = FALSE /\ cons = 0 /\ phase = "id" /\ k = 1 /\ fstart = 0
        /\ delivered = <<>> /\ nreads = 0 /\ hist = <<>>

Need == CASE phase = "id" -> 16 [] phase = "len" -> 4 [] OTHER -> IF k <= Len(Lens) THEN Lens[k] ELSE 0

Limit == CHOOSE c \in EofAt : \A d \in EofAt : c >= d      \* (one EofAt value per configuration is typical)

\* the network hands over the next chunk; the last permitted read carries everything up to the end
Deliver(n) ==
  /\ ~eof /\ nreads < MaxReads /\ n >= 1 /\ (fed + n) \in Cuts
  /\ \E c \in EofAt : fed + n <= c /\ (nreads = MaxReads - 1 => fed + n = c)
  /\ fed' = fed + n /\ nreads' = nreads + 1
  /\ hist' = IF RecordHist THEN Append(hist, n) ELSE hist
  /\ UNCHANGED <<eof, cons, phase, k, fstart, delivered>>

Eof ==
  /\ ~eof /\ fed \in EofAt
  /\ eof' = TRUE
  /\ hist' = IF RecordHist THEN Append(hist, 0) ELSE hist
  /\ UNCHANGED <<fed, cons, phase, k, fstart, delivered, nreads>>

\* one readexactly completes
ReaderStep ==
  /\ phase # "failed" /\ fed - cons >= Need
  /\ ~(phase = "id" /\ k > Len(Lens))
  /\ cons' = cons + Need
  /\ CASE phase = "id"  -> phase' = "len" /\ fstart' = cons /\ UNCHANGED <<k, delivered>>
       [] phase = "len" -> phase' = "body" /\ UNCHANGED <<k, fstart, delivered>>
       [] OTHER -> /\ phase' = "id" /\ k' = k + 1
                   /\ delivered' = Append(delivered, [k |-> k, from |-> fstart, to |-> cons + Need])
                   /\ UNCHANGED fstart
  /\ UNCHANGED <<fed, eof, nreads, hist>>

\* readexactly raises IncompleteReadError: the stream ended before `Need` bytes arrived
ReaderFail ==
  /\ phase # "failed" /\ eof /\ fed - cons < Need
  /\ phase' = "failed"
  /\ UNCHANGED <<fed, eof, cons, k, fstart, delivered, nreads, hist>>

Next == (\E c \in Cuts : c > fed /\ Deliver(c - fed)) \/ Eof \/ ReaderStep \/ ReaderFail
Spec == Init /\ [][Next]_vars

-----------------------------------------------------------------------------
\* messages are delivered intact, one by one, in order
InOrderIntact == \A j \in 1..Len(delivered) :
                    /\ delivered[j].k = j
                    /\ delivered[j].from = StartOf(j) /\ delivered[j].to = StartOf(j + 1)
\* nothing of a frame that was cut is delivered, and everything complete is delivered once the reader is idle
Quiescent == ~ENABLED ReaderStep /\ ~ENABLED ReaderFail
Complete(j) == StartOf(j + 1) <= fed
AllComplete == Quiescent => \A j \in 1..Len(Lens) : Complete(j) <=> j <= Len(delivered)
FailOnlyOnCut == phase = "failed" => eof

Terminal == eof /\ Quiescent
Emit == (RecordHist /\ Terminal) => PrintT(ToJson([reads |-> hist, ndelivered |-> Len(delivered), failed |-> phase = "failed"]))
=============================================================================
