------------------------------ MODULE SrvTrace ------------------------------
(* Judges logs recorded from the real IPC server (hooks, evaluated commands, response frames) with Srv!Rule. *)
EXTENDS Integers, Sequences, FiniteSets, TLC, Json, IOUtils
S == INSTANCE Srv WITH MaxIn <- 0, st <- "open", inp <- <<>>, log <- <<>>
Traces == JsonDeserialize(IOEnv.TRACE_FILE)
VARIABLE i
Init == i = 0
Next == /\ i < Len(Traces) /\ i' = i + 1
        /\ PrintT(ToJson([tid |-> Traces[i + 1].tid, ok |-> S!Rule(Traces[i + 1].log)]))
=============================================================================
