----------------------------- MODULE IpcCallAbs -----------------------------
(***************************************************************************)
(* C14 - what a caller of a remote handle relies on, as a monitor over      *)
(*   [ev |-> "begin", c]                 caller c entered call() with its   *)
(*                                       own request (request id = c)       *)
(*   [ev |-> "end", c, out, id]          call() returned the response to    *)
(*                                       request `id` (out = "value") or    *)
(*                                       raised (out = "exc")               *)
(*   [ev |-> "quiet", blocked]           nothing can happen any more;       *)
(*                                       blocked = callers still inside     *)
(* Rules: a returned value is the response to the caller's OWN request,     *)
(* never another's; a call ends at most once; when the system is quiet no    *)
(* caller is still waiting (every call completes, errors included).          *)
(***************************************************************************)
EXTENDS Integers, Sequences, FiniteSets

MonInit(Callers) == [st |-> [c \in Callers |-> "idle"], bad |-> "ok"]

Verdict(m, e) ==
  CASE e.ev = "begin" -> IF m.st[e.c] = "idle" THEN "ok" ELSE "BeginTwice"
    [] e.ev = "end"   -> IF m.st[e.c] = "done" THEN "AnsweredTwice"
                         ELSE IF e.out = "value" /\ e.id # e.c THEN "ForeignAnswer"
                         ELSE "ok"
    [] e.ev = "quiet" -> IF e.blocked # {} THEN "CallNeverCompletes" ELSE "ok"
    [] OTHER -> "ok"

Apply(m, e) ==
  CASE e.ev = "begin" -> [m EXCEPT !.st[e.c] = "in"]
    [] e.ev = "end"   -> [m EXCEPT !.st[e.c] = "done"]
    [] OTHER -> m

Step(m, e) == LET v == Verdict(m, e) m2 == Apply(m, e)
              IN IF m.bad = "ok" /\ v # "ok" THEN [m2 EXCEPT !.bad = v] ELSE m2
=============================================================================
