------------------------------ MODULE WireTrace ------------------------------
(* Judges what the real stream_recv_msg delivered for a given fragmentation of a real byte stream.      *)
(* tr = [tid, lens: body lengths, reads: chunk sizes (0 = end of stream), delivered: seq of [k, id, body]  *)
(*       where k is the index of the sent message whose id matched and id/body say whether the id and the *)
(*       decoded body equal the sent ones, failed: BOOLEAN, extra: number of spurious deliveries]          *)
EXTENDS Integers, Sequences, TLC, Json, IOUtils
Traces == JsonDeserialize(IOEnv.TRACE_FILE)
VARIABLE i

RECURSIVE Sum(_, _)
Sum(s, n) == IF n = 0 THEN 0 ELSE s[n] + Sum(s, n - 1)
Start(tr, k) == Sum([j \in 1..Len(tr.lens) |-> 20 + tr.lens[j]], k - 1)
Fed(tr) == Sum(tr.reads, Len(tr.reads))
Ended(tr) == \E j \in 1..Len(tr.reads) : tr.reads[j] = 0
NComplete(tr) == LET S == {k \in 0..Len(tr.lens) : Start(tr, k + 1) <= Fed(tr)} IN CHOOSE k \in S : \A q \in S : k >= q

Judge(tr) ==
  LET n == NComplete(tr) IN
  CASE Len(tr.delivered) > n -> "DeliveredIncompleteOrSpurious"
    [] Len(tr.delivered) < n -> "CompleteMessageNotDelivered"
    [] \E j \in 1..Len(tr.delivered) : tr.delivered[j].k # j -> "OutOfOrder"
    [] \E j \in 1..Len(tr.delivered) : ~tr.delivered[j].id \/ ~tr.delivered[j].body -> "NotIntact"
    [] tr.failed /\ ~Ended(tr) -> "FailedWithoutEndOfStream"
    [] ~tr.failed /\ Ended(tr) -> "EndOfStreamNotReported"
    [] OTHER -> "ok"

Init == i = 0
Next == /\ i < Len(Traces) /\ i' = i + 1
        /\ PrintT(ToJson([tid |-> Traces[i + 1].tid, bad |-> Judge(Traces[i + 1])]))
=============================================================================
