------------------------------- MODULE Remote -------------------------------
(* Generator of remote-operation histories for C13 (ii): all sequences over the menu up to MaxOps.       *)
(* The expected results are those of IpcAbs (the single shared server environment).                      *)
(* Every operation is issued by one of Clients (independent client interpreters, each with its own        *)
(* connection, dictionary handle and function proxies): what one client stores, every client reads.       *)
EXTENDS Integers, Sequences, TLC, Json
CONSTANTS Keys, Vals, MaxOps, Clients,
          DsetVals, AssignVals, CallVals, PairA, PairB     \* the menus (subsets of the value ids) of each operation
\* a character cannot be passed as a bare element of a Klong join (,0cx is the string "x"): such values only travel by text
ArgVals == Vals \ {5}
\* function values: 8 = a monad, 9 = a dyad (assigned by text; read back through the dictionary as a proxy of that arity)
FnVals == {8, 9}
A == INSTANCE IpcAbs
VARIABLES env, hist
vars == <<env, hist>>
Init == env = [k \in Keys |-> A!NotSet] /\ hist = <<>>
V(v) == [t |-> "v", v |-> v]
Next ==
  /\ Len(hist) < MaxOps
  /\ \E c \in Clients : LET Add(e) == hist' = Append(hist, e @@ [c |-> c]) IN
     \/ \E k \in Keys, v \in DsetVals : env' = [env EXCEPT ![k] = v] /\ Add([op |-> "dset", k |-> k, v |-> v, obs |-> V(0)])
     \/ \E k \in Keys, v \in AssignVals : env' = [env EXCEPT ![k] = v] /\ Add([op |-> "assign", k |-> k, v |-> v, obs |-> V(v)])
     \/ \E k \in Keys : env[k] # A!NotSet /\ UNCHANGED env /\ Add([op |-> "dget", k |-> k, obs |-> V(env[k])])
     \/ \E k \in Keys : env[k] \notin ({A!Undef, A!NotSet} \cup FnVals) /\ UNCHANGED env /\ Add([op |-> "eval", k |-> k, obs |-> V(env[k])])
     \* an EXPRESSION over the variable (k*2) evaluated remotely: the value it sees is the one last stored by either route
     \/ \E k \in Keys : env[k] \notin ({A!Undef, A!NotSet} \cup FnVals) /\ UNCHANGED env /\ Add([op |-> "evalx", k |-> k, obs |-> [t |-> "expr", v |-> env[k]]])
     \/ \E k \in Keys : env[k] # A!NotSet /\ UNCHANGED env /\ Add([op |-> "isundef", k |-> k, obs |-> V(IF env[k] = A!Undef THEN 1 ELSE 0)])
     \/ \E v \in CallVals, o \in {"call1", "proxy1"} : UNCHANGED env /\ Add([op |-> o, v |-> v, obs |-> V(v)])
     \* a remote NILAD: the list form with no parameters f(,:seven) and the proxy q0() - the server's seven::{7} returns value 1
     \/ \E o \in {"call0", "proxy0"} : CallVals # {} /\ UNCHANGED env /\ Add([op |-> o, obs |-> V(1)])
     \/ \E a \in PairA, b \in PairB, o \in {"call2", "proxy2"} : UNCHANGED env /\ Add([op |-> o, a |-> a, b |-> b, obs |-> [t |-> "pair", a |-> a, b |-> b]])
Emit == Len(hist) = MaxOps => PrintT(ToJson(hist))
=============================================================================
