------------------------------- MODULE IpcAbs -------------------------------
(***************************************************************************)
(* C13 (ii) - what a remote handle means: every remote operation acts on    *)
(* ONE environment, the server interpreter's, exactly as the same           *)
(* operation would locally.  Monitor over operations carrying the result    *)
(* observed on the CLIENT:                                                  *)
(*   [op |-> "dset",  k, v]          d,[:k v]      remote dictionary set    *)
(*   [op |-> "dget",  k, obs]        d?:k          remote dictionary get    *)
(*   [op |-> "eval",  k, obs]        f("k")        evaluate text remotely   *)
(*   [op |-> "assign",k, v, obs]     f("k::<v>")   assignment by text       *)
(*   [op |-> "evalx", k, obs]        f("k*2")      an expression over k;    *)
(*        obs = [t |-> "expr", v |-> id] when the result is what the        *)
(*        expression yields for the value id (decided by a local twin)      *)
(*   [op |-> "call1", v, obs]        f(:id,,v)     remote function call     *)
(*   [op |-> "call2", a, b, obs]     f((:pair,,a),,b)                       *)
(*   [op |-> "call0", obs]           f(,:seven)    remote nilad (7 = id 1)  *)
(*   [op |-> "proxy0", obs]          q::f(:seven); q()                      *)
(*   [op |-> "proxy1",v, obs]        q::f(:id); q(v)                        *)
(*   [op |-> "proxy2",a, b, obs]     q::f(:pair); q(a;b)                    *)
(*   [op |-> "isundef", k, obs]      :_(d?:k) evaluated on the client       *)
(* Values are ids >= 1 from a closed transportable universe; Undef = 0;     *)
(* obs is [t |-> "v", v |-> id] | [t |-> "pair", a, b] | [t |-> "exc"] |    *)
(* [t |-> "other"] (a value outside the universe, e.g. an undefined that    *)
(* lost its identity in transport).                                         *)
(***************************************************************************)
EXTENDS Integers, Sequences

Undef == 0
NotSet == -1       \* the server has no such variable: reading it fails on the server too (the connection may be
                   \* torn down by a failing command; the rest of such a history is not judged)
MonInit(Keys) == [env |-> [k \in Keys |-> NotSet], bad |-> "ok", live |-> TRUE]

IsV(o, v) == o.t = "v" /\ o.v = v

Do(m, e) ==
  CASE e.op = "dset"   -> <<[m EXCEPT !.env[e.k] = e.v], IF e.obs.t = "exc" THEN "RemoteSetRaised" ELSE "ok">>
    [] e.op = "assign" -> <<[m EXCEPT !.env[e.k] = e.v],       \* (a function assigned by text comes back as a function reference)
                            IF IsV(e.obs, e.v) \/ (e.v \in {8, 9} /\ e.obs.t = "fnref") THEN "ok" ELSE "AssignResult">>
    [] e.op = "dget"   -> IF m.env[e.k] = NotSet THEN <<[m EXCEPT !.live = FALSE], "ok">>
                          ELSE <<m, IF IsV(e.obs, m.env[e.k]) THEN "ok"
                                    ELSE IF m.env[e.k] = Undef THEN "UndefinedNotUndefined" ELSE "GetMismatch">>
    [] e.op = "eval"   -> <<m, IF m.env[e.k] \in {Undef, NotSet} THEN "ok"        \* unbound name: not specified here
                               ELSE IF IsV(e.obs, m.env[e.k]) THEN "ok" ELSE "EvalMismatch">>
    [] e.op = "evalx"  -> <<m, IF m.env[e.k] \in {Undef, NotSet, 8, 9} THEN "ok"
                               ELSE IF e.obs.t = "expr" /\ e.obs.v = m.env[e.k] THEN "ok" ELSE "ExpressionSeesOtherValue">>
    [] e.op \in {"call1", "proxy1"} -> <<m, IF IsV(e.obs, e.v) THEN "ok"
                                           ELSE IF e.v = Undef THEN "UndefinedNotUndefined" ELSE "CallMismatch">>
    [] e.op \in {"call0", "proxy0"} -> <<m, IF IsV(e.obs, 1) THEN "ok" ELSE "CallMismatch">>
    [] e.op \in {"call2", "proxy2"} -> <<m, IF e.obs.t = "pair" /\ e.obs.a = e.a /\ e.obs.b = e.b THEN "ok" ELSE "CallMismatch">>
    [] e.op = "isundef" -> IF m.env[e.k] = NotSet THEN <<[m EXCEPT !.live = FALSE], "ok">>
                           ELSE <<m, IF e.obs.t = "v" /\ e.obs.v = (IF m.env[e.k] = Undef THEN 1 ELSE 0) THEN "ok"
                                     ELSE "UndefinedTest">>
    [] OTHER -> <<m, "ok">>

Step(m, e) == IF ~m.live THEN m
              ELSE IF e.obs.t = "skipped" THEN [m EXCEPT !.live = FALSE]
              ELSE LET r == Do(m, e) IN IF m.bad = "ok" /\ r[2] # "ok" THEN [r[1] EXCEPT !.bad = r[2]] ELSE r[1]
=============================================================================
