------------------------------- MODULE WebAbs -------------------------------
(***************************************************************************)
(* C20 - what a user of .web / .webc and of a websocket connection relies   *)
(* on, as a monitor.                                                        *)
(* HTTP events:                                                             *)
(*  [ev |-> "start", gets, posts, raising]   .web(port; get; post): sets of *)
(*        registered paths per method; raising = paths whose handler raises *)
(*  [ev |-> "redef", path, method, tag]      the named handler of a route   *)
(*        was redefined; its results now carry `tag`                        *)
(*  [ev |-> "request", method, path, params, status, body, calls]           *)
(*        status = 0 when the port refused the connection; calls = sequence *)
(*        of [route, method, params, tag] logged by the handlers while this *)
(*        request was served                                                *)
(*  [ev |-> "webc", res]                     .webc(handle) returned res     *)
(* Websocket events:                                                        *)
(*  [ev |-> "ws_in", k]              message number k arrived               *)
(*  [ev |-> "ws_handled", k, same]   .ws.m was invoked with message k;      *)
(*                                   same = decoded value equals what was   *)
(*                                   sent                                   *)
(*  [ev |-> "ws_out", same]          a value sent arrived as its JSON text  *)
(*  [ev |-> "ws_quiet"]              nothing more can happen                *)
(***************************************************************************)
EXTENDS Integers, Sequences, FiniteSets

MonInit == [up |-> FALSE, gets |-> {}, posts |-> {}, raising |-> {}, tag |-> [p \in {} |-> ""],
            nin |-> 0, nh |-> 0, bad |-> "ok"]

Registered(m, method, path) == IF method = "GET" THEN path \in m.gets ELSE path \in m.posts
Key(method, path) == method \o " " \o path
TagOf(m, method, path) == IF Key(method, path) \in DOMAIN m.tag THEN m.tag[Key(method, path)] ELSE "v0"
Body(tag, method, path, params) == tag \o ":" \o method \o ":" \o path \o ":" \o params

ReqVerdict(m, e) ==
  IF ~m.up THEN (IF e.status = 0 /\ Len(e.calls) = 0 THEN "ok" ELSE "AnsweredWhileDown")
  ELSE IF e.status = 0 THEN "RefusedWhileUp"
  ELSE IF Registered(m, e.method, e.path) THEN
       IF Len(e.calls) # 1 THEN (IF Len(e.calls) = 0 THEN "HandlerNotCalled" ELSE "HandlerCalledTwice")
       ELSE LET c == e.calls[1] IN
            IF c.route # e.path \/ c.method # e.method THEN "WrongHandler"
            ELSE IF c.params # e.params THEN "WrongParameters"
            ELSE IF c.tag # TagOf(m, e.method, e.path) THEN "StaleHandler"
            ELSE IF e.path \in m.raising THEN (IF e.status = 400 THEN "ok" ELSE "FailingHandlerNot400")
            ELSE IF e.status # 200 THEN "GoodRequestRejected"
            ELSE IF e.body # Body(c.tag, e.method, e.path, e.params) THEN "WrongBody"
            ELSE "ok"
  ELSE IF Len(e.calls) # 0 THEN "UnregisteredPathReachedHandler"
  ELSE IF e.status = 200 THEN "UnregisteredPathAnswered200"
  ELSE "ok"

Verdict(m, e) ==
  CASE e.ev = "request" -> ReqVerdict(m, e)
    [] e.ev = "webc" -> IF m.up THEN (IF e.res = 1 THEN "ok" ELSE "WebcDidNotReportSuccess") ELSE "ok"
    [] e.ev = "ws_handled" -> IF e.k # m.nh + 1 THEN "WsOutOfOrderOrRepeated"
                              ELSE IF e.k > m.nin THEN "WsHandledBeforeArrival"
                              ELSE IF ~e.same THEN "WsMessageAltered" ELSE "ok"
    [] e.ev = "ws_out" -> IF e.same THEN "ok" ELSE "WsSentNotJsonEncoding"
    [] e.ev = "ws_quiet" -> IF m.nh = m.nin THEN "ok" ELSE "WsMessageNotDelivered"
    [] OTHER -> "ok"

Apply(m, e) ==
  CASE e.ev = "start" -> [m EXCEPT !.up = TRUE, !.gets = e.gets, !.posts = e.posts, !.raising = e.raising]
    [] e.ev = "redef" -> [m EXCEPT !.tag = [k \in DOMAIN m.tag \cup {Key(e.method, e.path)} |->
                                              IF k = Key(e.method, e.path) THEN e.tag ELSE m.tag[k]]]
    [] e.ev = "webc" -> [m EXCEPT !.up = FALSE]
    [] e.ev = "ws_in" -> [m EXCEPT !.nin = @ + 1]
    [] e.ev = "ws_handled" -> [m EXCEPT !.nh = @ + 1]
    [] OTHER -> m

Step(m, e) == LET v == Verdict(m, e) m2 == Apply(m, e)
              IN IF m.bad = "ok" /\ v # "ok" THEN [m2 EXCEPT !.bad = v] ELSE m2
=============================================================================
