----------------------------- MODULE TimerTrace -----------------------------
(***************************************************************************)
(* Conformance (code -> spec) for C15: every event log recorded from the   *)
(* real _call_periodic / .timer / .timerc under the virtual-time loop is    *)
(* folded through the monitor TimerAbs!Step.  One TLC state per log; the    *)
(* verdict of each log is printed as a JSON line, verdicts are total (the   *)
(* first failing clause is named, the rest of the log is still consumed).   *)
(***************************************************************************)
EXTENDS Integers, Sequences, TLC, Json, IOUtils

Abs == INSTANCE TimerAbs

Traces == JsonDeserialize(IOEnv.TRACE_FILE)     \* sequence of [tid, timers, events]

VARIABLE i
RECURSIVE Fold(_, _, _, _)
Fold(m, at, evs, k) ==
  IF k > Len(evs) THEN <<m, at>>
  ELSE LET m2 == Abs!Step(m, evs[k]) IN
       Fold(m2, IF at = 0 /\ m2.bad # "ok" THEN k ELSE at, evs, k + 1)

TimerSet(tr) == {tr.timers[j] : j \in 1..Len(tr.timers)}

Judge(tr) == LET r == Fold(Abs!MonInit(TimerSet(tr)), 0, tr.events, 1)
             IN  [tid |-> tr.tid, bad |-> r[1].bad, at |-> r[2], n |-> Len(tr.events)]

Init == i = 0
Next == /\ i < Len(Traces)
        /\ i' = i + 1
        /\ PrintT(ToJson(Judge(Traces[i + 1])))
=============================================================================
