--------------------------------- MODULE Web ---------------------------------
(***************************************************************************)
(* C20 - generator of web histories: route tables x request sequences x     *)
(* handler redefinition x .webc, with the observations the monitor WebAbs   *)
(* prescribes (implementation-shaped in the one respect that matters for    *)
(* sys_fn_web.py: one handler closure per route, bound when the server is   *)
(* started, resolving a NAMED handler at every request).                    *)
(***************************************************************************)
EXTENDS Integers, Sequences, FiniteSets, TLC, Json
CONSTANTS GetPaths, PostPaths,   \* candidate paths per method
          Raising,               \* paths whose handler raises
          ReqPaths,              \* paths requests may name (incl. an unregistered one)
          Params, MaxOps
A == INSTANCE WebAbs
VARIABLES st, mon, hist, ntag
vars == <<st, mon, hist, ntag>>

Init == /\ st = "new" /\ mon = A!MonInit /\ hist = <<>> /\ ntag = 0

Add(e) == mon' = A!Step(mon, e) /\ hist' = Append(hist, e)

Start == /\ st = "new"
         /\ \E g \in SUBSET GetPaths, p \in SUBSET PostPaths :
              /\ g \cup p # {}
              /\ Add([ev |-> "start", gets |-> g, posts |-> p, raising |-> Raising])
         /\ st' = "up" /\ UNCHANGED ntag

\* the observation the property prescribes for this request in the current state
Expected(method, path, params) ==
  IF ~mon.up THEN [status |-> 0, body |-> "", calls |-> <<>>]
  ELSE IF A!Registered(mon, method, path) THEN
       LET t == A!TagOf(mon, method, path)
           c == <<[route |-> path, method |-> method, params |-> params, tag |-> t]>> IN
       IF path \in Raising THEN [status |-> 400, body |-> "Invalid request", calls |-> c]
       ELSE [status |-> 200, body |-> A!Body(t, method, path, params), calls |-> c]
  ELSE [status |-> IF (method = "GET" /\ path \in mon.posts) \/ (method = "POST" /\ path \in mon.gets) THEN 405 ELSE 404,
        body |-> "", calls |-> <<>>]

Request == /\ st \in {"up", "down"} /\ Len(hist) < MaxOps
           /\ \E method \in {"GET", "POST"}, path \in ReqPaths, params \in Params :
                LET x == Expected(method, path, params) IN
                Add([ev |-> "request", method |-> method, path |-> path, params |-> params,
                     status |-> x.status, body |-> x.body, calls |-> x.calls])
           /\ UNCHANGED <<st, ntag>>

Redef == /\ st = "up" /\ Len(hist) < MaxOps /\ ntag < 2
         /\ \E method \in {"GET", "POST"}, path \in ReqPaths :
              /\ A!Registered(mon, method, path)
              /\ Add([ev |-> "redef", method |-> method, path |-> path, tag |-> "v" \o ToString(ntag + 1)])
         /\ ntag' = ntag + 1 /\ UNCHANGED st

\* busy = a request whose handler is still running occupies the io loop while .webc is evaluated: .webc may only
\* return once the server is really down (the harness probes the port the moment .webc returns)
Webc == /\ st = "up" /\ Len(hist) < MaxOps
        /\ \E busy \in BOOLEAN : Add([ev |-> "webc", res |-> 1, busy |-> busy])
        /\ st' = "down" /\ UNCHANGED ntag

Next == Start \/ Request \/ Redef \/ Webc
Good == mon.bad = "ok"
Emit == Len(hist) = MaxOps => PrintT(ToJson(hist))
=============================================================================
