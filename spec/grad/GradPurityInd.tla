--------------------------- MODULE GradPurityInd ---------------------------
\* Apalache wrapper: Restored as an INDUCTIVE invariant of the probe protocol, for any number of probes per parameter
\* (unbounded in n), two named parameters.
EXTENDS Integers

VARIABLES
  \* @type: Int;
  k,
  \* @type: Str;
  pc,
  \* @type: Int;
  par,
  \* @type: Int;
  n,
  \* @type: Int -> Str;
  held

\* the form: named parameters, NP of them, PR probes each (PR is a parameter of the proof: any positive number)
NP == 2
CONSTANT
  \* @type: Int;
  PR
Total == NP * PR

Init == /\ k \in 0..Total /\ pc = "idle" /\ par = 1 /\ n = 0 /\ held = [j \in 1..NP |-> "original"]
Bind == pc = "idle" /\ n < Total /\ pc' = "bound" /\ held' = [held EXCEPT ![par] = "temporary"] /\ UNCHANGED <<k, par, n>>
Call == pc = "bound" /\ pc' = "calling" /\ n' = n + 1 /\ UNCHANGED <<k, par, held>>
Return == /\ pc = "calling" /\ k # n
          /\ held' = [held EXCEPT ![par] = "original"]
          /\ par' = IF n % PR = 0 /\ par < NP THEN par + 1 ELSE par
          /\ pc' = IF n = Total THEN "returned" ELSE "idle"
          /\ UNCHANGED <<k, n>>
Fail == pc = "calling" /\ k = n /\ held' = [held EXCEPT ![par] = "original"] /\ pc' = "failed" /\ UNCHANGED <<k, par, n>>
Next == Bind \/ Call \/ Return \/ Fail

Restored == pc \in {"idle", "returned", "failed"} => \A j \in 1..NP : held[j] = "original"
IndInv == /\ pc \in {"idle", "bound", "calling", "returned", "failed"}
          /\ par \in 1..NP /\ n \in 0..Total /\ k \in 0..Total /\ PR >= 1
          /\ held \in [1..NP -> {"original", "temporary"}]
          /\ Restored
          /\ \A j \in 1..NP : j # par => held[j] = "original"
          /\ (pc = "bound" => n < Total) /\ (pc = "calling" => n >= 1)
IndInit == IndInv
ConstInit == PR \in 1..1000
============================================================================
