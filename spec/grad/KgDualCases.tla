----------------------------- MODULE KgDualCases -----------------------------
(* TLC as the evaluator of exact derivatives: reads cases [id, ast, params] and prints, for every parameter and every of its   *)
(* components, the value and the derivative of the expression (a scalar, or a vector for vector-valued expressions).           *)
EXTENDS KgDual, TLC, Json, IOUtils
Cases == JsonDeserialize(IOEnv.CASE_FILE)
VARIABLE i
Init == i = 0
NoEl == Bad
Out(x) == IF x.vec THEN [vec |-> TRUE, val |-> [k \in 1..Len(x.v) |-> x.v[k][1]], der |-> [k \in 1..Len(x.v) |-> x.v[k][2]]]
          ELSE [vec |-> FALSE, val |-> <<x.v[1]>>, der |-> <<x.v[2]>>]
Partials(c) == [p \in 1..Len(c.params) |-> [j \in 1..Len(c.params[p].vals) |-> DEval(c.ast, c.params, c.params[p].name, j, NoEl)]]
Next == /\ i < Len(Cases) /\ i' = i + 1
        /\ LET c == Cases[i + 1] r == Partials(c)
               ok == \A p \in 1..Len(r) : \A j \in 1..Len(r[p]) : ~r[p][j].err IN
           PrintT(ToJson([id |-> c.id, ok |-> ok,
                          d |-> IF ok THEN [p \in 1..Len(r) |-> [j \in 1..Len(r[p]) |-> Out(r[p][j])]] ELSE <<>>]))
=============================================================================
