------------------------------ MODULE GradPurity ------------------------------
(***************************************************************************)
(* C07 - the protocol by which the gradient operators evaluate the user's   *)
(* function, as a transition system with fault injection.                   *)
(*                                                                         *)
(* A gradient computation makes a sequence of PROBES.  A probe of a form    *)
(* that names its parameters (loss:>[w b], [w b]∂g, w∇f with a symbol)      *)
(* rebinds the user's global variable to a perturbed copy / tracking        *)
(* tensor, calls the function and restores the variable; a probe of a       *)
(* point form (f:>p, p∇f, p∂g) only calls the function.  The function may   *)
(* fail at its k-th evaluation (raise, return a non-scalar, refer to an     *)
(* unknown name).  The design-level requirement (Restored): whenever the    *)
(* operator is not inside a probe - in particular when it has returned or   *)
(* failed - every variable holds its original value.                        *)
(* TLC checks it on the model and emits every scenario (form, number of     *)
(* parameters, fault position, fault kind) for replay against the real      *)
(* operators, whose recorded snapshots are judged with FrameAbs.            *)
(***************************************************************************)
EXTENDS Integers, Sequences, FiniteSets, TLC, Json

CONSTANTS Forms,        \* set of [name, named (BOOLEAN), nparams, probes]  (probes per parameter)
          Kinds         \* fault kinds

VARIABLES sc,           \* the scenario: [form, k, kind, origin]   (k = 0: no fault)
                        \* origin: where the values of the variables come from - "literal" (assigned from program text) or
                        \* "computed" (the result of an earlier descent step v::v-0.1*v∇f0): irrelevant to the protocol, but
                        \* an implementation may hold such a value in another representation (dtype, shared storage)
          pc,           \* "start" | "idle" | "bound" | "calling" | "returned" | "failed"
          par,          \* index of the parameter being probed
          n,            \* evaluations of the user's function so far
          held          \* [1..nparams -> "original" | "temporary"]  what each named variable currently holds
vars == <<sc, pc, par, n, held>>

Total(f) == f.nparams * f.probes
Init == /\ sc \in {[form |-> f, k |-> k, kind |-> kd, origin |-> o] : f \in Forms, k \in 0..8, kd \in Kinds, o \in {"literal", "computed"}}
        /\ (sc.k = 0 <=> sc.kind = "none") /\ sc.k <= Total(sc.form)
        /\ pc = "idle" /\ par = 1 /\ n = 0 /\ held = [j \in 1..sc.form.nparams |-> "original"]

Bind == /\ pc = "idle" /\ n < Total(sc.form)
        /\ pc' = "bound"
        /\ held' = IF sc.form.named THEN [held EXCEPT ![par] = "temporary"] ELSE held
        /\ UNCHANGED <<sc, par, n>>
Call == /\ pc = "bound" /\ pc' = "calling" /\ n' = n + 1 /\ UNCHANGED <<sc, par, held>>
\* the function returns: the probe restores its variable (try/finally) and the next probe follows
Return == /\ pc = "calling" /\ ~(sc.k = n)
          /\ held' = [held EXCEPT ![par] = "original"]
          /\ par' = IF n % sc.form.probes = 0 /\ par < sc.form.nparams THEN par + 1 ELSE par
          /\ pc' = IF n = Total(sc.form) THEN "returned" ELSE "idle"
          /\ UNCHANGED <<sc, n>>
\* the function fails at its k-th evaluation: the finally clause restores, the error propagates
Fail == /\ pc = "calling" /\ sc.k = n
        /\ held' = [held EXCEPT ![par] = "original"]
        /\ pc' = "failed" /\ UNCHANGED <<sc, par, n>>
Next == Bind \/ Call \/ Return \/ Fail

Restored == pc \in {"idle", "returned", "failed"} => \A j \in 1..sc.form.nparams : held[j] = "original"
Finished == pc \in {"returned", "failed"}
Emit == Finished => PrintT(ToJson([form |-> sc.form.name, k |-> sc.k, kind |-> sc.kind, origin |-> sc.origin, evals |-> n, outcome |-> pc]))
=============================================================================
