------------------------------- MODULE KgDual -------------------------------
(***************************************************************************)
(* C06 - the exact derivative of an expression tree by forward-mode        *)
(* (dual number) evaluation over the rationals.  TLC is the evaluator.      *)
(*                                                                         *)
(* rationals  <<n, d>>, d > 0, gcd(n, d) = 1                                *)
(* scalar dual   [vec |-> FALSE, v |-> <<value, derivative>>]               *)
(* vector dual   [vec |-> TRUE,  v |-> sequence of <<value, derivative>>]   *)
(* error         [vec |-> FALSE, err |-> TRUE, ...]   (division by zero,    *)
(*               index out of range, shape mismatch: the case is outside    *)
(*               the smooth domain and is discarded)                        *)
(*                                                                         *)
(* expression trees (records with field k):                                 *)
(*   c(n,d) constant | pv(name) a vector parameter | ps(name) a scalar      *)
(*   parameter | el the element variable of an Each body | add sub mul div  *)
(*   (scalars broadcast over vectors) | neg | pow(a, e) with an integer     *)
(*   exponent | sum(a) = +/a | idx(a, i) = a@i | each(body, a) = {body}'a   *)
(*   | cat(a, b) a vector built from two scalars                            *)
(***************************************************************************)
EXTENDS Integers, Sequences, FiniteSets

Abs(n) == IF n < 0 THEN -n ELSE n
RECURSIVE Gcd(_, _)
Gcd(a, b) == IF b = 0 THEN a ELSE Gcd(b, a % b)
Q(n, d) == LET s == IF d < 0 THEN -1 ELSE 1 g == Gcd(Abs(n), Abs(d)) IN IF g = 0 THEN <<0, 1>> ELSE <<(s * n) \div g, (s * d) \div g>>
QAdd(a, b) == Q(a[1] * b[2] + b[1] * a[2], a[2] * b[2])
QSub(a, b) == Q(a[1] * b[2] - b[1] * a[2], a[2] * b[2])
QMul(a, b) == Q(a[1] * b[1], a[2] * b[2])
QDiv(a, b) == Q(a[1] * b[2], a[2] * b[1])
QNeg(a) == <<-a[1], a[2]>>
Zero == <<0, 1>>
One == <<1, 1>>
RECURSIVE QPowN(_, _)
QPowN(a, k) == IF k = 0 THEN One ELSE QMul(a, QPowN(a, k - 1))            \* k >= 0

Sc(p) == [vec |-> FALSE, err |-> FALSE, v |-> p]
Ve(q) == [vec |-> TRUE, err |-> FALSE, v |-> q]
Bad == [vec |-> FALSE, err |-> TRUE, v |-> <<Zero, Zero>>]

\* dual arithmetic on <<value, derivative>> pairs; every operation may meet a zero denominator
DAdd(a, b) == <<QAdd(a[1], b[1]), QAdd(a[2], b[2])>>
DSub(a, b) == <<QSub(a[1], b[1]), QSub(a[2], b[2])>>
DMul(a, b) == <<QMul(a[1], b[1]), QAdd(QMul(a[2], b[1]), QMul(a[1], b[2]))>>
DDivOk(b) == b[1][1] # 0
DDiv(a, b) == <<QDiv(a[1], b[1]), QDiv(QSub(QMul(a[2], b[1]), QMul(a[1], b[2])), QMul(b[1], b[1]))>>
DNeg(a) == <<QNeg(a[1]), QNeg(a[2])>>
\* a^k for an integer k: d = k * a^(k-1) * a'
DPowOk(a, k) == k >= 0 \/ a[1][1] # 0
DPow(a, k) == IF k >= 0 THEN <<QPowN(a[1], k), IF k = 0 THEN Zero ELSE QMul(QMul(<<k, 1>>, QPowN(a[1], k - 1)), a[2])>>
              ELSE LET p == QPowN(a[1], -k) IN                         \* a^k = 1 / a^(-k)
                   <<QDiv(One, p), QMul(QDiv(QMul(<<k, 1>>, One), QMul(p, a[1])), a[2])>>

Bin(op, a, b) == CASE op = "add" -> DAdd(a, b) [] op = "sub" -> DSub(a, b) [] op = "mul" -> DMul(a, b) [] op = "div" -> DDiv(a, b)
BinOk(op, a, b) == op # "div" \/ DDivOk(b)

\* lift a binary operation over scalar/vector operands (a scalar pairs with every element; two vectors pair element-wise)
Lift2(op, x, y) ==
  IF x.err \/ y.err THEN Bad
  ELSE IF ~x.vec /\ ~y.vec THEN (IF BinOk(op, x.v, y.v) THEN Sc(Bin(op, x.v, y.v)) ELSE Bad)
  ELSE IF x.vec /\ y.vec THEN
       (IF Len(x.v) # Len(y.v) THEN Bad
        ELSE IF \E k \in 1..Len(x.v) : ~BinOk(op, x.v[k], y.v[k]) THEN Bad
        ELSE Ve([k \in 1..Len(x.v) |-> Bin(op, x.v[k], y.v[k])]))
  ELSE IF x.vec THEN (IF \E k \in 1..Len(x.v) : ~BinOk(op, x.v[k], y.v) THEN Bad ELSE Ve([k \in 1..Len(x.v) |-> Bin(op, x.v[k], y.v)]))
  ELSE (IF \E k \in 1..Len(y.v) : ~BinOk(op, x.v, y.v[k]) THEN Bad ELSE Ve([k \in 1..Len(y.v) |-> Bin(op, x.v, y.v[k])]))
Lift1Neg(x) == IF x.err THEN Bad ELSE IF x.vec THEN Ve([k \in 1..Len(x.v) |-> DNeg(x.v[k])]) ELSE Sc(DNeg(x.v))
LiftPow(x, e) == IF x.err THEN Bad
                 ELSE IF x.vec THEN (IF \E k \in 1..Len(x.v) : ~DPowOk(x.v[k], e) THEN Bad ELSE Ve([k \in 1..Len(x.v) |-> DPow(x.v[k], e)]))
                 ELSE IF DPowOk(x.v, e) THEN Sc(DPow(x.v, e)) ELSE Bad
RECURSIVE SumD(_)
SumD(q) == IF q = <<>> THEN <<Zero, Zero>> ELSE DAdd(Head(q), SumD(Tail(q)))

\* params: sequence of [name, vec, vals (sequence of rationals)]; the derivative is taken with respect to component sj of
\* parameter sn (sj = 1 for a scalar parameter)
Param(ps, n) == CHOOSE k \in 1..Len(ps) : ps[k].name = n
RECURSIVE DEval(_, _, _, _, _)
DEval(e, ps, sn, sj, el) ==
  CASE e.k = "c" -> Sc(<<Q(e.n, e.d), Zero>>)
    [] e.k = "pv" -> LET p == ps[Param(ps, e.name)] IN
                     Ve([k \in 1..Len(p.vals) |-> <<Q(p.vals[k][1], p.vals[k][2]), IF e.name = sn /\ k = sj THEN One ELSE Zero>>])
    [] e.k = "ps" -> LET p == ps[Param(ps, e.name)] IN Sc(<<Q(p.vals[1][1], p.vals[1][2]), IF e.name = sn THEN One ELSE Zero>>)
    [] e.k = "el" -> el
    [] e.k \in {"add", "sub", "mul", "div"} -> Lift2(e.k, DEval(e.a, ps, sn, sj, el), DEval(e.b, ps, sn, sj, el))
    [] e.k = "neg" -> Lift1Neg(DEval(e.a, ps, sn, sj, el))
    [] e.k = "pow" -> LiftPow(DEval(e.a, ps, sn, sj, el), e.e)
    [] e.k = "sum" -> LET x == DEval(e.a, ps, sn, sj, el) IN IF x.err THEN Bad ELSE IF x.vec THEN Sc(SumD(x.v)) ELSE x
    [] e.k = "idx" -> LET x == DEval(e.a, ps, sn, sj, el) IN
                      IF x.err \/ ~x.vec THEN Bad ELSE IF e.i + 1 \in 1..Len(x.v) THEN Sc(x.v[e.i + 1]) ELSE Bad
    [] e.k = "each" -> LET x == DEval(e.a, ps, sn, sj, el) IN
                       IF x.err \/ ~x.vec THEN Bad
                       ELSE LET r == [k \in 1..Len(x.v) |-> DEval(e.body, ps, sn, sj, Sc(x.v[k]))] IN
                            IF \E k \in 1..Len(r) : r[k].err \/ r[k].vec THEN Bad ELSE Ve([k \in 1..Len(r) |-> r[k].v])
    [] e.k = "cat" -> LET x == DEval(e.a, ps, sn, sj, el) y == DEval(e.b, ps, sn, sj, el) IN
                      IF x.err \/ y.err \/ x.vec \/ y.vec THEN Bad ELSE Ve(<<x.v, y.v>>)
    [] OTHER -> Bad
=============================================================================
