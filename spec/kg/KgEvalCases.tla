----------------------------- MODULE KgEvalCases -----------------------------
(* TLC as the evaluator of the reference semantics over generated programs: reads cases [id, ast, env] from a JSON   *)
(* file and prints the prescribed value of each (or that the case leaves the defined domain).                       *)
EXTENDS KgEval, TLC, Json, IOUtils
Cases == JsonDeserialize(IOEnv.CASE_FILE)
VARIABLE i
Init == i = 0
Val(c) == Eval(c.ast, c.env)
Next == /\ i < Len(Cases) /\ i' = i + 1
        /\ LET c == Cases[i + 1] v == Val(c) IN
           PrintT(ToJson([id |-> c.id, ok |-> ~HasErr(v), val |-> IF HasErr(v) THEN I(0) ELSE v]))
=============================================================================
