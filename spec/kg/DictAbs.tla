------------------------------- MODULE DictAbs -------------------------------
(***************************************************************************)
(* C10 - a Klong dictionary as the user sees it: a finite map that is a     *)
(* SHARED object (reference semantics), as a monitor over operations with   *)
(* their observed results.  Keys and values are canonical texts ("i:1",     *)
(* "s:abc", "y:sym", "c:x", "l:[1 2]"), so equality of keys is equality of   *)
(* kind and content.                                                        *)
(*  state: heap : [ref -> sequence of <<key, value>>]   (insertion order)   *)
(*         vars : [name -> ref | 0]                                         *)
(*  events:                                                                 *)
(*   [op |-> "new",    var, pairs]      var:::{...}  a literal is evaluated *)
(*   [op |-> "newf",   var, pairs]      var::mk()    literal inside a       *)
(*                                      function, evaluated again per call  *)
(*   [op |-> "alias",  var, src]        var::src                            *)
(*   [op |-> "add",    var, k, v, side] var,[k v]  /  [k v],var             *)
(*   [op |-> "addbad", var, k]          var,,k      a tuple of one element:  *)
(*                                      may fail, must change nothing       *)
(*   [op |-> "find",   var, k, obs]     var?k       obs = value | "undef"   *)
(*   [op |-> "remove", var, k]          k_var                               *)
(*   [op |-> "size",   var, obs]        #var                                *)
(*   [op |-> "each",   var, obs]        {x}'var     obs = sequence of pairs *)
(***************************************************************************)
EXTENDS Integers, Sequences, FiniteSets

\* coll = {} is the property: two keys are the same key iff they are equal in kind and content.  A non-empty coll (pairs
\* <<stored key, queried key>> that are additionally taken for the same key) is used ONLY to decide whether a history that
\* violates the property fails exactly as a listed known finding predicts (see DictTrace.tla, known_findings.json).
MonInit(Vars, coll) == [heap |-> <<>>, vars |-> [v \in Vars |-> 0], bad |-> "ok", coll |-> coll]

Eq(coll, stored, q) == stored = q \/ <<stored, q>> \in coll
RECURSIVE LookupC(_, _, _)
LookupC(c, ps, k) == IF ps = <<>> THEN "undef" ELSE IF Eq(c, Head(ps)[1], k) THEN Head(ps)[2] ELSE LookupC(c, Tail(ps), k)
Lookup(ps, k) == LookupC({}, ps, k)
HasKey(c, ps, k) == \E j \in 1..Len(ps) : Eq(c, ps[j][1], k)
First(c, ps, k) == CHOOSE j \in 1..Len(ps) : Eq(c, ps[j][1], k) /\ \A i \in 1..(j - 1) : ~Eq(c, ps[i][1], k)
Put(c, ps, k, v) == IF HasKey(c, ps, k) THEN [ps EXCEPT ![First(c, ps, k)] = <<ps[First(c, ps, k)][1], v>>]   \* the stored key stays
                    ELSE Append(ps, <<k, v>>)
Del(c, ps, k) == IF HasKey(c, ps, k) THEN [j \in 1..(Len(ps) - 1) |-> IF j < First(c, ps, k) THEN ps[j] ELSE ps[j + 1]] ELSE ps
\* a sequence of observed pairs visits every key/value pair exactly once (in any order)
SamePairs(obs, ps) == /\ Len(obs) = Len(ps)
                      /\ \A j \in 1..Len(ps) : Cardinality({i \in 1..Len(obs) : obs[i] = ps[j]}) = 1

Ref(m, var) == m.vars[var]
Cell(m, var) == m.heap[Ref(m, var)]

Verdict(m, e) ==
  CASE e.op \in {"add", "find", "remove", "size", "each"} /\ Ref(m, e.var) = 0 -> "skip"
    [] e.op = "find" -> IF e.obs = LookupC(m.coll, Cell(m, e.var), e.k) THEN "ok"
                        ELSE IF LookupC(m.coll, Cell(m, e.var), e.k) = "undef" THEN "MissingKeyNotUndefined" ELSE "WrongValue"
    [] e.op = "size" -> IF e.obs = Len(Cell(m, e.var)) THEN "ok" ELSE "WrongSize"
    [] e.op = "each" -> IF SamePairs(e.obs, Cell(m, e.var)) THEN "ok" ELSE "EachDidNotVisitEveryPairOnce"
    [] OTHER -> "ok"

Apply(m, e) ==
  CASE e.op \in {"new", "newf"} ->
         [m EXCEPT !.heap = Append(@, e.pairs), !.vars[e.var] = Len(m.heap) + 1]        \* a FRESH dictionary
    [] e.op = "alias" -> [m EXCEPT !.vars[e.var] = m.vars[e.src]]
    [] e.op = "add" /\ Ref(m, e.var) # 0 -> [m EXCEPT !.heap[Ref(m, e.var)] = Put(m.coll, @, e.k, e.v)]
    [] e.op = "remove" /\ Ref(m, e.var) # 0 -> [m EXCEPT !.heap[Ref(m, e.var)] = Del(m.coll, @, e.k)]
    [] OTHER -> m

Step(m, e) == LET v == Verdict(m, e) m2 == Apply(m, e)
              IN IF m.bad = "ok" /\ v \notin {"ok", "skip"} THEN [m2 EXCEPT !.bad = v] ELSE m2
=============================================================================
