--------------------------------- MODULE Dict ---------------------------------
(* C10: generator of dictionary operation histories with the observations DictAbs prescribes. *)
EXTENDS Integers, Sequences, FiniteSets, TLC, Json
CONSTANTS Vars, Keys, Vals, MaxOps,
          Focus,     \* TRUE: every history works on two keys and two values chosen at the start (so that add / remove / find
                     \* of the SAME key meet within one history); FALSE: all keys and values at every step
          NoPair     \* "key|value" texts that are not generated: a pair of an integer and a real cannot be written in Klong
                     \* without both becoming reals (the numeric homogenisation recorded under C01)
Lit == << <<"i:1", "i:10">>, <<"s:s1", "s:v">> >>     \* the pairs of the literal :{[1 10] ["s1" "v"]}
A == INSTANCE DictAbs
VARIABLES mon, hist, fk, fv
Init == /\ mon = A!MonInit(Vars, {}) /\ hist = <<>>
        /\ fk \in (IF Focus THEN {S \in SUBSET Keys : Cardinality(S) = 2} ELSE {Keys})
        /\ fv \in (IF Focus THEN {S \in SUBSET Vals : Cardinality(S) = 2} ELSE {Vals})
Add(e) == mon' = A!Step(mon, e) /\ hist' = Append(hist, e) /\ UNCHANGED <<fk, fv>>
Bound(v) == mon.vars[v] # 0
Next ==
  /\ Len(hist) < MaxOps
  /\ \/ \E v \in Vars : Add([op |-> "new", var |-> v, pairs |-> Lit])
     \/ \E v \in Vars : Add([op |-> "newf", var |-> v, pairs |-> Lit])
     \/ \E v \in Vars, s \in Vars : v # s /\ Bound(s) /\ Add([op |-> "alias", var |-> v, src |-> s])
     \/ \E v \in Vars, k \in fk, x \in fv, side \in {"right", "left"} :
          Bound(v) /\ (k \o "|" \o x) \notin NoPair /\ Add([op |-> "add", var |-> v, k |-> k, v |-> x, side |-> side])
     \* a malformed update (a one-element tuple): whatever it answers, the dictionary is what it was
     \/ \E v \in Vars, k \in fk : Bound(v) /\ Add([op |-> "addbad", var |-> v, k |-> k])
     \/ \E v \in Vars, k \in fk : Bound(v) /\ Add([op |-> "find", var |-> v, k |-> k, obs |-> A!Lookup(A!Cell(mon, v), k)])
     \/ \E v \in Vars, k \in fk : Bound(v) /\ Add([op |-> "remove", var |-> v, k |-> k])
     \/ \E v \in Vars : Bound(v) /\ Add([op |-> "size", var |-> v, obs |-> Len(A!Cell(mon, v))])
     \/ \E v \in Vars : Bound(v) /\ Add([op |-> "each", var |-> v, obs |-> A!Cell(mon, v)])
Good == mon.bad = "ok"
Emit == Len(hist) = MaxOps => PrintT(ToJson(hist))
=============================================================================
