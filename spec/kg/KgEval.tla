------------------------------- MODULE KgEval -------------------------------
(***************************************************************************)
(* Big-step evaluator of Klong expressions over a JSON-shaped AST: the       *)
(* "value of the body under substitution" that C03 (and, restricted to the   *)
(* numeric core, C05 and C08) refer to.                                      *)
(*   [k |-> "lit", v |-> value]                                              *)
(*   [k |-> "var", n |-> name]            x, y, z, a local or a global       *)
(*   [k |-> "mo",  op, a]                 monadic operator application       *)
(*   [k |-> "dy",  op, a, b]              dyadic operator application        *)
(*   [k |-> "ad",  adv, op, a]            f/a, f\a with an operator f        *)
(*   [k |-> "ad2", adv, op, a, b]         a f/b ...                          *)
(*   [k |-> "eachl", lam, a]              {lambda}'a with a named function   *)
(*   [k |-> "cond", c, t, e]              :[c;t;e]                           *)
(* env is a function from names to values.  Anything outside the domain of   *)
(* a verb evaluates to Err (the case is then not judged).                    *)
(***************************************************************************)
EXTENDS KgAdverbs

RECURSIVE Eval(_, _)
Eval(e, env) ==
  CASE e.k = "lit" -> e.v
    [] e.k = "var" -> IF e.n \in DOMAIN env THEN env[e.n] ELSE Err("unbound")
    [] e.k = "mo" -> MonadD(e.op, Eval(e.a, env))
    [] e.k = "dy" -> LET b == Eval(e.b, env) a == Eval(e.a, env) IN DyadD(e.op, a, b)
    [] e.k = "ad" -> Ap1F(Adv(e.adv, Op(e.op)), Eval(e.a, env))
    [] e.k = "ad2" -> Ap2F(Adv(e.adv, Op(e.op)), Eval(e.a, env), Eval(e.b, env))
    [] e.k = "eachl" -> Ap1F(Adv("each", Lam(e.lam)), Eval(e.a, env))
    [] e.k = "cond" -> LET c == Eval(e.c, env) IN IF IsErr(c) THEN c ELSE IF Truth(c) THEN Eval(e.t, env) ELSE Eval(e.e, env)
    [] OTHER -> Err("unknown node")
=============================================================================
