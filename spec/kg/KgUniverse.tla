------------------------------ MODULE KgUniverse ------------------------------
(* The closed operand universes of C01 (one source of truth: the harness never invents operands for the   *)
(* exhaustive tier) and the enumeration of all in-domain cases with the value the reference prescribes.   *)
EXTENDS KgVerbs, TLC, Json
CONSTANT Tier          \* "quick" | "thorough"

Str(q) == S(q)         \* code points: a=97 b=98 c=99 d=100 e=101 h=104 l=108 o=111 x=120
Ints(q) == L([k \in 1..Len(q) |-> I(q[k])])

U0 == <<
  I(0), I(1), I(-1), I(2), I(3), I(5), I(-7),
  R(1, 2), R(-3, 2), R(5, 2),
  C(97), C(98),
  S(<<>>), S(<<97>>), S(<<97, 98>>), S(<<104, 101, 108, 108, 111>>),
  Y(<<120>>),
  L(<<>>), Ints(<<1>>), Ints(<<1, 2, 3>>), Ints(<<3, 1, 2>>), Ints(<<0, 1, 0, 1>>), Ints(<<1, 2, 3, 4, 5>>), Ints(<<2, 2, 1>>),
  L(<<R(1, 2), R(3, 2)>>), L(<<I(1), R(5, 2)>>),
  L(<<Ints(<<1, 2>>), Ints(<<3, 4>>)>>), L(<<Ints(<<1, 2, 3>>), Ints(<<4, 5, 6>>)>>), L(<<Ints(<<1>>), Ints(<<2>>), Ints(<<3>>)>>),
  L(<<I(1), Ints(<<2, 3>>)>>), L(<<Ints(<<1>>), Ints(<<2, 3>>)>>),
  L(<<S(<<97, 98>>), S(<<99, 100>>)>>), L(<<I(1), S(<<97, 98>>), Y(<<120>>)>>),
  L(<<Y(<<120>>), I(0), I(1)>>), L(<<S(<<97, 98>>), I(1), I(0)>>), Ints(<<-1, 2>>), Ints(<<1, 2, 3, 4, 5, 6>>),
  L(<<L(<<S(<<97>>), S(<<98>>)>>), L(<<S(<<99>>), S(<<100>>)>>)>>), L(<<S(<<122, 122>>), I(1), I(1)>>),    \* [["a" "b"] ["c" "d"]], ["zz" 1 1]
  L(<<Ints(<<1, 1>>), Ints(<<2, 2>>), Ints(<<3, 3>>)>>)     \* [[1 1] [2 2] [3 3]]: equal to the one-column [[1] [2] [3]] only under broadcasting
>>

U1 == U0 \o <<
  I(4), I(7), I(-2), R(1, 4), R(-5, 2), C(120), S(<<120, 121, 122, 120>>), Y(<<97, 98>>),
  Ints(<<0>>), Ints(<<5, 4, 3, 2, 1, 0>>), Ints(<<1, 1, 1, 2, 2>>), Ints(<<-1, 0, 1>>),
  L(<<L(<<Ints(<<1, 2>>), Ints(<<3, 4>>)>>), L(<<Ints(<<5, 6>>), Ints(<<7, 8>>)>>)>>),
  L(<<Ints(<<1, 2>>), Ints(<<3, 4>>), Ints(<<5, 6>>)>>),
  L(<<I(1), L(<<I(2), Ints(<<3, 4>>)>>)>>), L(<<L(<<>>), Ints(<<1>>)>>), L(<<S(<<>>), S(<<97>>)>>),
  L(<<R(1, 2), I(2), R(-3, 2)>>)
>>

Ops == IF Tier = "quick" THEN U0 ELSE U1

MSeq == <<"@", "!", "&", "*", "#", "^", ",", "~", "?", "|", "+", "=", "<", ">", "-", "%", "_", ":_", ":#">>
DSeq == <<"+", "-", "*", "%", ":%", "!", "^", "&", "|", "<", ">", "=", "~", ",", "#", "_", "@", "?", ":+", ":#", ":_", ":^", ":=", ":-">>

VARIABLES vi, ai, bi
Init == vi = 1 /\ ai = 1 /\ bi = 0
\* bi = 0: the monad MSeq[vi] on Ops[ai] (vi <= Len(MSeq)); bi > 0: the dyad DSeq[vi] on Ops[ai], Ops[bi]
NV == Len(MSeq) + Len(DSeq)
IsM == vi <= Len(MSeq)
Verb == IF IsM THEN MSeq[vi] ELSE DSeq[vi - Len(MSeq)]
InDom == IF IsM THEN DomM(Verb, Ops[ai]) ELSE DomD(Verb, Ops[ai], Ops[bi])
Expected == IF IsM THEN Monad(Verb, Ops[ai]) ELSE Dyad(Verb, Ops[ai], Ops[bi])
Case == IF IsM THEN [m |-> 1, verb |-> Verb, a |-> Ops[ai], exp |-> Expected]
        ELSE [m |-> 0, verb |-> Verb, a |-> Ops[ai], b |-> Ops[bi], exp |-> Expected]
N == Len(Ops)
Next == /\ vi <= NV
        /\ IF IsM THEN (IF ai < N THEN ai' = ai + 1 /\ UNCHANGED <<vi, bi>>
                        ELSE vi' = vi + 1 /\ ai' = 1 /\ bi' = (IF vi + 1 > Len(MSeq) THEN 1 ELSE 0))
           ELSE (IF bi < N THEN bi' = bi + 1 /\ UNCHANGED <<vi, ai>>
                 ELSE IF ai < N THEN ai' = ai + 1 /\ bi' = 1 /\ UNCHANGED vi
                 ELSE vi' = vi + 1 /\ ai' = 1 /\ bi' = 1)
Emit == (vi <= NV /\ InDom) => PrintT(ToJson(Case))
=============================================================================
