------------------------------ MODULE DictTrace ------------------------------
EXTENDS Integers, Sequences, FiniteSets, TLC, Json, IOUtils
A == INSTANCE DictAbs
Traces == JsonDeserialize(IOEnv.TRACE_FILE)
VARIABLE i
RECURSIVE Fold(_, _, _, _)
Fold(m, at, evs, k) ==
  IF k > Len(evs) THEN <<m, at>>
  ELSE LET m2 == A!Step(m, evs[k]) IN Fold(m2, IF at = 0 /\ m2.bad # "ok" THEN k ELSE at, evs, k + 1)
\* the verdict is the one under coll = {}.  `explained` says whether a violating history is accepted when the key collisions
\* of the listed known finding (tr.coll, computed from the finding's fixed description) are taken into account.
Judge(tr) == LET vs == {tr.vars[j] : j \in 1..Len(tr.vars)}
                 r == Fold(A!MonInit(vs, {}), 0, tr.events, 1)
                 c == {<<tr.coll[j][1], tr.coll[j][2]>> : j \in 1..Len(tr.coll)}
                 r2 == Fold(A!MonInit(vs, c), 0, tr.events, 1)
             IN [tid |-> tr.tid, bad |-> r[1].bad, at |-> r[2], explained |-> (r[1].bad # "ok" /\ c # {} /\ r2[1].bad = "ok")]
Init == i = 0
Next == /\ i < Len(Traces) /\ i' = i + 1 /\ PrintT(ToJson(Judge(Traces[i + 1])))
=============================================================================
