------------------------------- MODULE FrameAbs -------------------------------
(***************************************************************************)
(* C03 (frame discipline) / C07 (purity): what a caller relies on around a  *)
(* call, as a judgement over one recorded execution                          *)
(*   [pre, post : sequences of [n |-> name, v |-> text of the canonical     *)
(*                value], depth_pre, depth_post, assigned : sequence of     *)
(*                names the program deliberately assigns, hidden : names    *)
(*                that must not be visible afterwards (parameters, locals), *)
(*                follow, twin : texts of a follow-up program's result in   *)
(*                this interpreter and in a twin that never ran the call]   *)
(* Every variable of the caller has the value it had before (apart from the *)
(* deliberate assignments), no parameter or local is visible, the context   *)
(* is as deep as before, and further programs evaluate as in the twin.      *)
(***************************************************************************)
EXTENDS Integers, Sequences, FiniteSets
SetOf(s) == {s[j] : j \in 1..Len(s)}
Names(snap) == {snap[j].n : j \in 1..Len(snap)}
ValOf(snap, n) == LET j == CHOOSE j \in 1..Len(snap) : snap[j].n = n IN snap[j].v
Judge(tr) ==
  CASE tr.depth_post # tr.depth_pre -> "FrameLeftBehind"
    [] \E n \in SetOf(tr.hidden) : n \in Names(tr.post) /\ n \notin Names(tr.pre) -> "LocalOrParameterVisible"
    [] \E n \in Names(tr.pre) \ SetOf(tr.assigned) : n \notin Names(tr.post) -> "VariableLost"
    [] \E n \in Names(tr.pre) \ SetOf(tr.assigned) : ValOf(tr.post, n) # ValOf(tr.pre, n) -> "VariableChanged"
    [] \E n \in Names(tr.post) \ (Names(tr.pre) \cup SetOf(tr.assigned)) : TRUE -> "VariableAppeared"
    [] tr.follow # tr.twin -> "LaterProgramsAffected"
    [] OTHER -> "ok"
=============================================================================
