------------------------------ MODULE KgValues ------------------------------
(***************************************************************************)
(* The value universe of the Klong core as tagged records                   *)
(*    [t |-> tag, v |-> payload]                                            *)
(*  "i" integer        v \in Int                                            *)
(*  "r" real           v = <<num, den>>, den > 0, gcd(num, den) = 1         *)
(*                     (TLC has no floats: the reals of the universes are   *)
(*                     rationals whose exact results stay rational)         *)
(*  "c" character      v = code point                                       *)
(*  "s" string         v = sequence of code points                          *)
(*  "y" symbol         v = sequence of code points                          *)
(*  "l" list           v = sequence of values                               *)
(*  "d" dictionary     v = sequence of <<key, value>> (by value; the heap   *)
(*                     model with references is KgMachine's)                *)
(*  "u" undefined      v = 0                                                *)
(*  "e" error          v = 0, why = text (outside the defined domain)       *)
(* Values of different tags are never put into one set: TLC compares        *)
(* records field by field in name order, "t" before "v", so the equality    *)
(* of two values of different tags is FALSE without a type error.           *)
(***************************************************************************)
EXTENDS Integers, Sequences, FiniteSets

I(n) == [t |-> "i", v |-> n]
C(n) == [t |-> "c", v |-> n]
S(q) == [t |-> "s", v |-> q]
Y(q) == [t |-> "y", v |-> q]
L(q) == [t |-> "l", v |-> q]
D(q) == [t |-> "d", v |-> q]
U    == [t |-> "u", v |-> 0]
Err(w) == [t |-> "e", v |-> 0, why |-> w]

Abs(n) == IF n < 0 THEN -n ELSE n
RECURSIVE Gcd(_, _)
Gcd(a, b) == IF b = 0 THEN a ELSE Gcd(b, a % b)
\* normalised rational (den > 0); a rational with den = 1 is still a REAL (kind is part of the value)
R(n, d) == LET s == IF d < 0 THEN -1 ELSE 1
               g == Gcd(Abs(n), Abs(d))
           IN  [t |-> "r", v |-> <<(s * n) \div g, (s * d) \div g>>]

IsInt(a)  == a.t = "i"
IsReal(a) == a.t = "r"
IsNum(a)  == a.t \in {"i", "r"}
IsChar(a) == a.t = "c"
IsStr(a)  == a.t = "s"
IsSym(a)  == a.t = "y"
IsList(a) == a.t = "l"
IsDict(a) == a.t = "d"
IsErr(a)  == a.t = "e"
IsUndef(a) == a.t = "u"
Items(a)  == a.v                       \* of a list; of a string: its code points
Len0(a)   == Len(a.v)
\* the characters of a string as values
Chars(a)  == [k \in 1..Len(a.v) |-> C(a.v[k])]

\* Klong: all objects except non-empty lists and non-empty strings are atoms
IsAtom(a) == ~((IsList(a) \/ IsStr(a)) /\ Len(a.v) > 0)
\* truth: 0, [] and "" are false, everything else is true
Truth(a) == ~((IsInt(a) /\ a.v = 0) \/ (IsReal(a) /\ a.v[1] = 0) \/ ((IsList(a) \/ IsStr(a)) /\ Len(a.v) = 0))
B(p) == I(IF p THEN 1 ELSE 0)

\* numerator / denominator of a number
Nu(a) == IF IsInt(a) THEN a.v ELSE a.v[1]
De(a) == IF IsInt(a) THEN 1 ELSE a.v[2]
NumLess(a, b) == Nu(a) * De(b) < Nu(b) * De(a)
NumEq(a, b)   == Nu(a) * De(b) = Nu(b) * De(a)

\* lexicographic order of code-point sequences
RECURSIVE SeqLess(_, _)
SeqLess(p, q) == IF q = <<>> THEN FALSE
                 ELSE IF p = <<>> THEN TRUE
                 ELSE IF Head(p) < Head(q) THEN TRUE
                 ELSE IF Head(p) > Head(q) THEN FALSE
                 ELSE SeqLess(Tail(p), Tail(q))

\* structural identity of two values (same kinds, same structure, same elements)
RECURSIVE Same(_, _)
Same(a, b) ==
  IF a.t # b.t THEN FALSE
  ELSE IF a.t = "l" THEN Len(a.v) = Len(b.v) /\ \A k \in 1..Len(a.v) : Same(a.v[k], b.v[k])
  ELSE IF a.t = "d" THEN Len(a.v) = Len(b.v) /\ \A k \in 1..Len(a.v) : Same(a.v[k][1], b.v[k][1]) /\ Same(a.v[k][2], b.v[k][2])
  ELSE a.v = b.v

\* Klong Match (~): numbers by value (integers and reals match when equal in value), everything else by identity,
\* lists element-wise; "" and [] do not match each other (different kinds)
RECURSIVE Match(_, _)
Match(a, b) ==
  IF IsNum(a) /\ IsNum(b) THEN NumEq(a, b)
  ELSE IF a.t # b.t THEN FALSE
  ELSE IF a.t = "l" THEN Len(a.v) = Len(b.v) /\ \A k \in 1..Len(a.v) : Match(a.v[k], b.v[k])
  ELSE IF a.t = "d" THEN Same(a, b)
  ELSE a.v = b.v

\* shape of a value as a sequence of integers (<<>> for atoms), strings count as vectors of characters
RECURSIVE ShapeOf(_)
ShapeOf(a) ==
  IF IsStr(a) THEN (IF Len(a.v) = 0 THEN <<0>> ELSE <<Len(a.v)>>)
  ELSE IF ~IsList(a) THEN <<>>
  ELSE IF Len(a.v) = 0 THEN <<0>>
  ELSE LET sub == [k \in 1..Len(a.v) |-> ShapeOf(a.v[k])]
       IN  IF sub[1] # <<>> /\ (\A k \in 1..Len(sub) : sub[k] = sub[1]) /\ sub[1] # <<0>>
           THEN <<Len(a.v)>> \o sub[1] ELSE <<Len(a.v)>>
=============================================================================
