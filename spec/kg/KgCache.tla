------------------------------- MODULE KgCache -------------------------------
(***************************************************************************)
(* C05 - implementation-shaped model of the interpreter's hidden state      *)
(* around the expression compiler (klongpy/interpreter.py, compiler.py):    *)
(*   parse cache + _compiled_cache   keyed by (text, module), filled by     *)
(*                                   __call__, CLEARED by every assignment  *)
(*                                   and deletion (__setitem__/__delitem__) *)
(*   x._compiled                     a memo on the AST node of an operator  *)
(*                                   expression / adverb chain inside a     *)
(*                                   function body, filled by eval(), NEVER *)
(*                                   cleared                                *)
(* Admission (compiler._ast_to_ir): every variable of the expression is     *)
(* bound, at compile time, to an int, a float or an ndarray.  Compiled code *)
(* is tried first; on ANY exception the interpreter evaluates.              *)
(* The model tracks the class of each variable and, for the two kinds of    *)
(* cache, under which classes the cached code was admitted.  It produces    *)
(* the histories (evaluation positions x rebinding routes x classes) that   *)
(* the harness instantiates with concrete expressions and values; the       *)
(* verdict on each is KgEval's (compiled and interpreted runs must both     *)
(* give the specification's value, or both fail).                           *)
(***************************************************************************)
EXTENDS Integers, Sequences, FiniteSets, TLC, Json

CONSTANTS Classes,      \* value classes, e.g. {"int","real","ivec","rvec","mat","empty","nested","str"}
          Admitted,     \* the classes the compiler admits (numbers and ndarrays)
          Start,        \* [{"a","b"} -> Classes]
          MaxOps

VARIABLES cls, topc, topsig, memo, memosig, n, hist
vars == <<cls, topc, topsig, memo, memosig, n, hist>>
Vars == {"a", "b"}

Init == /\ cls = Start /\ topc = "none" /\ topsig = Start /\ memo = "none" /\ memosig = Start /\ n = 0 /\ hist = <<>>

Admissible == \A v \in Vars : cls[v] \in Admitted

\* evaluation of the expression text at top level: klong("expr")
EvalTop ==
  /\ n < MaxOps /\ n' = n + 1
  /\ LET c == IF topc = "none" THEN (IF Admissible THEN "code" ELSE "false") ELSE topc
         sig == IF topc = "none" THEN cls ELSE topsig IN
     /\ topc' = c /\ topsig' = sig
     /\ hist' = Append(hist, [a |-> "evaltop", compiled |-> c = "code", stale |-> c = "code" /\ sig # cls])
  /\ UNCHANGED <<cls, memo, memosig>>

\* evaluation inside a function body that reads the globals: f::{expr}; f()
EvalFn ==
  /\ n < MaxOps /\ n' = n + 1
  /\ LET c == IF memo = "none" THEN (IF Admissible THEN "code" ELSE "false") ELSE memo
         sig == IF memo = "none" THEN cls ELSE memosig IN
     /\ memo' = c /\ memosig' = sig
     /\ hist' = Append(hist, [a |-> "evalfn", compiled |-> c = "code", stale |-> c = "code" /\ sig # cls])
  /\ UNCHANGED <<cls, topc, topsig>>

\* the other two positions carry no cache of their own across rebinding: lambda parameters ({expr}(a;b)) and
\* operand of a non-compilable verb (*,expr)
EvalOther(pos) ==
  /\ n < MaxOps /\ n' = n + 1
  /\ hist' = Append(hist, [a |-> pos, compiled |-> Admissible, stale |-> FALSE])
  /\ UNCHANGED <<cls, topc, topsig, memo, memosig>>

\* (routes: "top" a::v at top level, "fn" a::v inside a function, "py" klong['a'] = NumPy value, "pylist" klong['a'] = a plain
\* Python list / number - data a Python caller hands over, which is not one of the kinds the compiler admits)
\* rebinding a variable to a value of another class; every route goes through KlongInterpreter.__setitem__ or the
\* context and clears _compiled_cache, none touches the node memos
Rebind(v, c, route) ==
  /\ n < MaxOps /\ n' = n + 1 /\ c # cls[v]
  /\ cls' = [cls EXCEPT ![v] = c]
  /\ topc' = "none"
  /\ hist' = Append(hist, [a |-> "rebind", v |-> v, c |-> c, route |-> route])
  /\ UNCHANGED <<topsig, memo, memosig>>

Next == \/ EvalTop \/ EvalFn \/ EvalOther("evallam") \/ EvalOther("evalarg")
        \/ \E v \in Vars, c \in Classes, r \in {"top", "py", "pylist", "fn"} : Rebind(v, c, r)

\* the text-keyed cache never serves code admitted under other classes
TopNeverStale == topc = "code" => topsig = cls
\* (companion, expected to be violated: the node memo does serve stale code - the design relies on NumPy raising)
MemoNeverStale == memo = "code" => memosig = cls
Emit == n = MaxOps => PrintT(ToJson(hist))
=============================================================================
