------------------------------ MODULE KgMachine ------------------------------
(***************************************************************************)
(* C04 - the interpreter as a transition system over statement histories.   *)
(* The state is the variable environment (values are immutable: numbers,    *)
(* strings and lists have value semantics); Exec(s) evaluates statement s   *)
(* with KgEval and binds the assigned variable.  By construction the        *)
(* result of a statement and the environment it leaves depend only on the   *)
(* statement and the current environment - which is the property; the      *)
(* implementation (parse cache, compiled-expression caches, NumPy buffers   *)
(* shared between variables, literals inside function bodies) is replayed   *)
(* against every behaviour, twice: along the whole history and, for every   *)
(* step, in a fresh interpreter loaded with the pre-state.                  *)
(***************************************************************************)
EXTENDS KgEval, TLC, Json

CONSTANTS MaxLen, RecordHist,
          Only           \* a set of statement indices to which the histories are restricted ({} = all statements)

Ints(q) == L([k \in 1..Len(q) |-> I(q[k])])
Lit(v) == [k |-> "lit", v |-> v]
Var(n) == [k |-> "var", n |-> n]
Dy(op, a, b) == [k |-> "dy", op |-> op, a |-> a, b |-> b]
Mo(op, a) == [k |-> "mo", op |-> op, a |-> a]
Asg(n, e) == [k |-> "assign", n |-> n, e |-> e]
Ex(e) == [k |-> "expr", e |-> e]
CallF(f, a) == [k |-> "callf", f |-> f, a |-> a]
Pair(x, i) == Lit(L(<<I(x), I(i)>>))           \* the right operand of Amend: [value index]

\* functions defined in the prelude of every interpreter (same text in harness/props/c04.py):
\*   f1::{[t];t::[1 2 3];t:=x,0}        a list literal inside a function body, amended
\*   g1::{[q];q:::{[1 2]};q,x,,x;#q}     a dictionary literal inside a function body, updated in place
\*   h1::{[t];t::!4;t:=x,1}              an enumerated vector amended
FnVal(f, a) ==
  CASE f = "f1" -> DyadD(":=", Ints(<<1, 2, 3>>), L(<<a, I(0)>>))
    [] f = "g1" -> I(2)
    [] f = "h1" -> DyadD(":=", Ints(<<0, 1, 2, 3>>), L(<<a, I(1)>>))
    [] OTHER -> Err("unknown function")

RECURSIVE EvalX(_, _)
EvalX(e, env) ==
  IF e.k = "callf" THEN (LET a == EvalX(e.a, env) IN IF IsErr(a) THEN a ELSE FnVal(e.f, a))
  ELSE IF e.k = "dy" THEN (LET b == EvalX(e.b, env) a == EvalX(e.a, env) IN DyadD(e.op, a, b))
  ELSE IF e.k = "mo" THEN MonadD(e.op, EvalX(e.a, env))
  ELSE Eval(e, env)

MixM == L(<<L(<<S(<<112>>), I(1)>>), L(<<S(<<114>>), I(2)>>)>>)       \* [["p" 1] ["r" 2]]
\* a string of 36 characters (longer than any threshold at which an implementation might start to share or memoise character data)
LongS == S(<<97, 98, 99, 100, 101, 102, 103, 104, 105, 106, 107, 108, 109, 110, 111, 112, 113, 114, 115, 116, 117, 118, 119, 120, 121, 122,
            48, 49, 50, 51, 52, 53, 54, 55, 56, 57>>)
Rank3 == L(<<L(<<Ints(<<1, 2>>), Ints(<<3, 4>>)>>), L(<<Ints(<<5, 6>>), Ints(<<7, 8>>)>>)>>)       \* [[[1 2] [3 4]] [[5 6] [7 8]]]
Stmts == <<
  Asg("a", Lit(Ints(<<1, 2, 3>>))), Asg("a", Lit(Ints(<<4, 5, 6, 7>>))), Asg("b", Var("a")),
  Asg("c", Dy(":=", Var("a"), Pair(9, 0))), Asg("a", Dy(":=", Var("a"), Pair(8, 1))),
  Asg("d", Dy("#", Lit(I(2)), Var("a"))), Asg("d", Dy(":=", Var("d"), Pair(7, 0))),
  Asg("e", Mo("|", Var("a"))), Asg("e", Dy(":=", Var("e"), Pair(5, 0))),
  Asg("b", Dy(":=", Var("b"), Pair(6, 2))),
  Ex(Dy("@", Var("a"), Lit(I(1)))), Ex([k |-> "ad", adv |-> "over", op |-> "+", a |-> Var("a")]),
  Ex(CallF("f1", Lit(I(9)))), Ex(CallF("f1", Lit(I(7)))), Asg("c", CallF("f1", Lit(I(1)))), Asg("c", Dy(":=", Var("c"), Pair(4, 1))),
  Asg("a", Dy(",", Var("a"), Lit(I(10)))), Asg("b", Dy("_", Lit(I(1)), Var("a"))),
  Ex(CallF("g1", Lit(I(5)))), Ex(CallF("g1", Lit(I(6)))),
  Asg("a", Mo("!", Lit(I(4)))), Asg("b", Dy("+", Var("a"), Lit(I(1)))), Asg("d", Dy("@", Var("a"), Lit(Ints(<<0, 1>>)))),
  Asg("d", CallF("h1", Lit(I(9)))), Asg("e", Dy(":+", Lit(I(1)), Var("a"))), Asg("c", Dy(":^", Lit(Ints(<<2, 2>>)), Var("a"))),
  Asg("c", Mo("+", Var("c"))), Asg("e", Dy("@", Var("c"), Lit(I(0)))), Asg("e", Dy(":=", Var("e"), Pair(3, 0))),
  \* a list of mixed kinds amended in depth with symbols and strings (through aliases, reversed and dropped sub-lists)
  Asg("a", Lit(MixM)), Asg("b", Dy(":-", Var("a"), Lit(L(<<Y(<<122>>), I(0), I(1)>>)))),
  Asg("c", Dy(":-", Var("a"), Lit(L(<<S(<<113, 113>>), I(1), I(0)>>)))), Asg("e", Dy(":-", Var("e"), Lit(L(<<Y(<<122>>), I(0), I(0)>>)))),
  Asg("d", Dy("_", Lit(I(1)), Var("a"))), Asg("d", Dy(":-", Var("d"), Lit(L(<<S(<<119>>), I(0), I(0)>>)))),
  \* a rank-3 array amended in depth (three indices) with a number, and a sub-array taken from it earlier
  Asg("a", Lit(Rank3)), Asg("c", Dy(":-", Var("a"), Lit(Ints(<<9, 1, 0, 1>>)))), Asg("d", Dy("@", Var("a"), Lit(I(1)))),
  Asg("a", Dy(":-", Var("a"), Lit(Ints(<<8, 0, 1, 0>>)))),
  \* module switches: the SAME statement texts are evaluated before, inside and after a module
  [k |-> "modin"], [k |-> "modout"], Asg("a", Dy("+", Var("a"), Lit(I(1)))), Ex(Var("a")),
  \* a statement that FAILS inside a user function with a declared local named like a global (e1::{[a];a::[10 20 30];a@x} in the
  \* prelude, index out of range): the error reaches the top level and the variable state is what it was
  [k |-> "fail", src |-> "e1(9)"], [k |-> "fail", src |-> "b::e1(7)"],
  \* a long string held by two variables (once by assignment of the variable, once from the same literal), amended with a
  \* character, indexed, taken from and reversed
  Asg("a", Lit(LongS)), Asg("d", Lit(LongS)), Asg("c", Dy(":=", Var("a"), Lit(L(<<C(81), I(4)>>)))),
  Asg("e", Dy("@", Var("a"), Lit(I(4)))), Asg("e", Dy("#", Lit(I(7)), Var("d"))), Asg("e", Dy("@", Var("d"), Lit(Ints(<<4, 10>>)))),
  Asg("b", Dy(":=", Var("d"), Lit(L(<<C(90), I(10)>>))))
>>

\* Variable state = three scopes: the globals defined before the module (env), the module's own names (menv, written
\* a`m by the reader) and the names created after the module was closed (penv); ph = 0 before, 1 inside, 2 after the module.
\* Lookup and assignment follow klongpy's KlongContext: inside the module an assignment always creates/updates the
\* module's own name and a read falls back to the global; after the module a read sees the module's name first (exports)
\* while an assignment updates an existing global (module names are not assignable from outside).  This rule is the
\* implementation's; the harness reports a disagreement with it as SPEC-DRIFT and judges only A against B there.
VARIABLES env, menv, penv, ph, hist, n
vars == <<env, menv, penv, ph, hist, n>>
Names == {"a", "b", "c", "d", "e"}
Unbound == [t |-> "unbound", v |-> 0]
Bound(e) == [q \in {m \in Names : e[m].t # "unbound"} |-> e[q]]
IsB(e, q) == e[q].t # "unbound"
Eff(g, m, p, h) == [q \in Names |-> IF h = 2 /\ IsB(p, q) THEN p[q] ELSE IF h >= 1 /\ IsB(m, q) THEN m[q] ELSE g[q]]
Target(q) == IF ph = 0 THEN "g" ELSE IF ph = 1 THEN "m" ELSE IF IsB(penv, q) THEN "p" ELSE IF IsB(env, q) THEN "g" ELSE "p"
Snap(g, m, p, h) == [g |-> Bound(g), m |-> Bound(m), p |-> Bound(p), ph |-> h]

Init == env = [m \in Names |-> Unbound] /\ menv = env /\ penv = env /\ ph = 0 /\ hist = <<>> /\ n = 0

Value(s) == IF s.k \in {"modin", "modout", "fail"} THEN I(0) ELSE EvalX(s.e, Bound(Eff(env, menv, penv, ph)))

Exec(i) ==
  /\ n < MaxLen /\ n' = n + 1
  /\ LET s == Stmts[i] v == Value(s)
         tg == IF s.k = "assign" THEN Target(s.n) ELSE "-"
         g2 == IF tg = "g" THEN [env EXCEPT ![s.n] = v] ELSE env
         m2 == IF tg = "m" THEN [menv EXCEPT ![s.n] = v] ELSE menv
         p2 == IF tg = "p" THEN [penv EXCEPT ![s.n] = v] ELSE penv
         h2 == IF s.k = "modin" THEN 1 ELSE IF s.k = "modout" THEN 2 ELSE ph IN
     /\ ~HasErr(v)                                  \* statements outside the defined domain are not taken
     /\ s.k = "modin" => ph = 0                     \* one module, entered once and left once
     /\ s.k = "modout" => ph = 1
     /\ env' = g2 /\ menv' = m2 /\ penv' = p2 /\ ph' = h2
     /\ hist' = IF RecordHist THEN Append(hist, [i |-> i, stmt |-> s, val |-> v, pre |-> Snap(env, menv, penv, ph),
                                               post |-> Snap(g2, m2, p2, h2)])
                ELSE hist

AllStmts == {}
\* the alias b::a and the seven long-string statements at the end of Stmts
StringStmts == {3} \cup {i \in 1..Len(Stmts) : i > Len(Stmts) - 7}
Next == \E i \in (IF Only = {} THEN 1..Len(Stmts) ELSE Only) : Exec(i)

\* the frame condition, as an action property: a statement changes at most the one variable it assigns, in one scope
Changed(q) == (IF Same(env'[q], env[q]) THEN 0 ELSE 1) + (IF Same(menv'[q], menv[q]) THEN 0 ELSE 1) + (IF Same(penv'[q], penv[q]) THEN 0 ELSE 1)
Frame == [][/\ \A q \in Names : Changed(q) > 0 => \E i \in 1..Len(Stmts) : Stmts[i].k = "assign" /\ Stmts[i].n = q
            /\ Cardinality({q \in Names : Changed(q) > 0}) <= 1 /\ \A q \in Names : Changed(q) <= 1]_vars
Emit == (RecordHist /\ n = MaxLen) => PrintT(ToJson(hist))
=============================================================================
