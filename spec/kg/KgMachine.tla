------------------------------ MODULE KgMachine ------------------------------
(***************************************************************************)
(* C04 - the interpreter as a transition system over statement histories.   *)
(* The state is the variable environment (values are immutable: numbers,    *)
(* strings and lists have value semantics); Exec(s) evaluates statement s   *)
(* with KgEval and binds the assigned variable.  By construction the        *)
(* result of a statement and the environment it leaves depend only on the   *)
(* statement and the current environment - which is the property; the      *)
(* implementation (parse cache, compiled-expression caches, NumPy buffers   *)
(* shared between variables, literals inside function bodies) is replayed   *)
(* against every behaviour, twice: along the whole history and, for every   *)
(* step, in a fresh interpreter loaded with the pre-state.                  *)
(***************************************************************************)
EXTENDS KgEval, TLC, Json

CONSTANTS MaxLen, RecordHist

Ints(q) == L([k \in 1..Len(q) |-> I(q[k])])
Lit(v) == [k |-> "lit", v |-> v]
Var(n) == [k |-> "var", n |-> n]
Dy(op, a, b) == [k |-> "dy", op |-> op, a |-> a, b |-> b]
Mo(op, a) == [k |-> "mo", op |-> op, a |-> a]
Asg(n, e) == [k |-> "assign", n |-> n, e |-> e]
Ex(e) == [k |-> "expr", e |-> e]
CallF(f, a) == [k |-> "callf", f |-> f, a |-> a]
Pair(x, i) == Lit(L(<<I(x), I(i)>>))           \* the right operand of Amend: [value index]

\* functions defined in the prelude of every interpreter (same text in harness/props/c04.py):
\*   f1::{[t];t::[1 2 3];t:=x,0}        a list literal inside a function body, amended
\*   g1::{[q];q:::{[1 2]};q,x,,x;#q}     a dictionary literal inside a function body, updated in place
\*   h1::{[t];t::!4;t:=x,1}              an enumerated vector amended
FnVal(f, a) ==
  CASE f = "f1" -> DyadD(":=", Ints(<<1, 2, 3>>), L(<<a, I(0)>>))
    [] f = "g1" -> I(2)
    [] f = "h1" -> DyadD(":=", Ints(<<0, 1, 2, 3>>), L(<<a, I(1)>>))
    [] OTHER -> Err("unknown function")

RECURSIVE EvalX(_, _)
EvalX(e, env) ==
  IF e.k = "callf" THEN (LET a == EvalX(e.a, env) IN IF IsErr(a) THEN a ELSE FnVal(e.f, a))
  ELSE IF e.k = "dy" THEN (LET b == EvalX(e.b, env) a == EvalX(e.a, env) IN DyadD(e.op, a, b))
  ELSE IF e.k = "mo" THEN MonadD(e.op, EvalX(e.a, env))
  ELSE Eval(e, env)

Stmts == <<
  Asg("a", Lit(Ints(<<1, 2, 3>>))), Asg("a", Lit(Ints(<<4, 5, 6, 7>>))), Asg("b", Var("a")),
  Asg("c", Dy(":=", Var("a"), Pair(9, 0))), Asg("a", Dy(":=", Var("a"), Pair(8, 1))),
  Asg("d", Dy("#", Lit(I(2)), Var("a"))), Asg("d", Dy(":=", Var("d"), Pair(7, 0))),
  Asg("e", Mo("|", Var("a"))), Asg("e", Dy(":=", Var("e"), Pair(5, 0))),
  Asg("b", Dy(":=", Var("b"), Pair(6, 2))),
  Ex(Dy("@", Var("a"), Lit(I(1)))), Ex([k |-> "ad", adv |-> "over", op |-> "+", a |-> Var("a")]),
  Ex(CallF("f1", Lit(I(9)))), Ex(CallF("f1", Lit(I(7)))), Asg("c", CallF("f1", Lit(I(1)))), Asg("c", Dy(":=", Var("c"), Pair(4, 1))),
  Asg("a", Dy(",", Var("a"), Lit(I(10)))), Asg("b", Dy("_", Lit(I(1)), Var("a"))),
  Ex(CallF("g1", Lit(I(5)))), Ex(CallF("g1", Lit(I(6)))),
  Asg("a", Mo("!", Lit(I(4)))), Asg("b", Dy("+", Var("a"), Lit(I(1)))), Asg("d", Dy("@", Var("a"), Lit(Ints(<<0, 1>>)))),
  Asg("d", CallF("h1", Lit(I(9)))), Asg("e", Dy(":+", Lit(I(1)), Var("a"))), Asg("c", Dy(":^", Lit(Ints(<<2, 2>>)), Var("a"))),
  Asg("c", Mo("+", Var("c"))), Asg("e", Dy("@", Var("c"), Lit(I(0)))), Asg("e", Dy(":=", Var("e"), Pair(3, 0)))
>>

VARIABLES env, hist, n
vars == <<env, hist, n>>
Names == {"a", "b", "c", "d", "e"}
Unbound == [t |-> "unbound", v |-> 0]
Bound(e) == [q \in {m \in Names : e[m].t # "unbound"} |-> e[q]]

Init == env = [m \in Names |-> Unbound] /\ hist = <<>> /\ n = 0

Value(s) == EvalX(IF s.k = "assign" THEN s.e ELSE s.e, Bound(env))

Exec(i) ==
  /\ n < MaxLen /\ n' = n + 1
  /\ LET s == Stmts[i] v == Value(s) IN
     /\ ~HasErr(v)                                  \* statements outside the defined domain are not taken
     /\ env' = IF s.k = "assign" THEN [env EXCEPT ![s.n] = v] ELSE env
     /\ hist' = IF RecordHist THEN Append(hist, [i |-> i, stmt |-> s, val |-> v, pre |-> Bound(env),
                                               post |-> Bound(IF s.k = "assign" THEN [env EXCEPT ![s.n] = v] ELSE env)])
                ELSE hist

Next == \E i \in 1..Len(Stmts) : Exec(i)

\* the frame condition, as an action property: a statement changes no variable but the one it assigns
Frame == [][\A m \in Names : ~Same(env'[m], env[m]) => \E i \in 1..Len(Stmts) : Stmts[i].k = "assign" /\ Stmts[i].n = m]_vars
Emit == (RecordHist /\ n = MaxLen) => PrintT(ToJson(hist))
=============================================================================
