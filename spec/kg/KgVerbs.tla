------------------------------- MODULE KgVerbs -------------------------------
(***************************************************************************)
(* C01 - the primitive verbs of Klong, one operator per verb, transcribed   *)
(* from the reference text that klongpy carries in each verb's docstring.   *)
(*   Monad(v, a) / Dyad(v, a, b)      the value the reference prescribes    *)
(*   DomM(v, a)  / DomD(v, a, b)      where the reference defines a result  *)
(* (conservatively: outside the domain nothing is claimed - an              *)
(* implementation "may only accept more").  Atomic verbs go through one     *)
(* generic element-wise application with atom-to-list extension.           *)
(***************************************************************************)
EXTENDS KgValues

-----------------------------------------------------------------------------
(* arithmetic on numbers (integers and exact rationals)                      *)
NAdd(a, b) == IF IsInt(a) /\ IsInt(b) THEN I(a.v + b.v) ELSE R(Nu(a) * De(b) + Nu(b) * De(a), De(a) * De(b))
NSub(a, b) == IF IsInt(a) /\ IsInt(b) THEN I(a.v - b.v) ELSE R(Nu(a) * De(b) - Nu(b) * De(a), De(a) * De(b))
NMul(a, b) == IF IsInt(a) /\ IsInt(b) THEN I(a.v * b.v) ELSE R(Nu(a) * Nu(b), De(a) * De(b))
NDiv(a, b) == IF Nu(b) = 0 THEN U ELSE R(Nu(a) * De(b), De(a) * Nu(b))          \* always a real
Sign(n) == IF n < 0 THEN -1 ELSE 1
TDiv(x, y) == Sign(x) * Sign(y) * (Abs(x) \div Abs(y))                           \* truncating division
NIDiv(a, b) == I(TDiv(a.v, b.v))
NRem(a, b) == I(a.v - b.v * TDiv(a.v, b.v))
RECURSIVE IPow(_, _)
IPow(x, n) == IF n = 0 THEN 1 ELSE x * IPow(x, n - 1)
NPow(a, b) == \* b integer
  IF b.v >= 0 THEN (IF IsInt(a) THEN I(IPow(a.v, b.v)) ELSE R(IPow(Nu(a), b.v), IPow(De(a), b.v)))
  ELSE IF Nu(a) = 0 THEN U ELSE R(IPow(De(a), -b.v), IPow(Nu(a), -b.v))
NMin(a, b) == IF NumLess(b, a) THEN b ELSE a
NMax(a, b) == IF NumLess(a, b) THEN b ELSE a
NNeg(a) == IF IsInt(a) THEN I(-a.v) ELSE R(-Nu(a), De(a))
NRecip(a) == IF Nu(a) = 0 THEN U ELSE R(De(a), Nu(a))
NFloor(a) == IF IsInt(a) THEN a ELSE I(Nu(a) \div De(a))                          \* De > 0: \div floors
NAbs(a) == IF IsInt(a) THEN I(Abs(a.v)) ELSE R(Abs(Nu(a)), De(a))

\* order on comparable atoms of one kind
Less(a, b) == CASE IsNum(a) /\ IsNum(b) -> NumLess(a, b)
                [] IsChar(a) /\ IsChar(b) -> a.v < b.v
                [] (IsStr(a) /\ IsStr(b)) \/ (IsSym(a) /\ IsSym(b)) -> SeqLess(a.v, b.v)
                [] OTHER -> FALSE
Comparable(a, b) == (IsNum(a) /\ IsNum(b)) \/ (IsChar(a) /\ IsChar(b)) \/ (IsStr(a) /\ IsStr(b)) \/ (IsSym(a) /\ IsSym(b))
Equal(a, b) == IF IsNum(a) /\ IsNum(b) THEN NumEq(a, b) ELSE a.t = b.t /\ a.v = b.v

AtomicD == {"+", "-", "*", "%", ":%", "!", "^", "&", "|", "<", ">", "="}
AtomicM == {"-", "%", "_", ":#"}

\* an atomic dyad on two atoms
Atom2(v, a, b) ==
  CASE v = "+" -> NAdd(a, b) [] v = "-" -> NSub(a, b) [] v = "*" -> NMul(a, b) [] v = "%" -> NDiv(a, b)
    [] v = ":%" -> NIDiv(a, b) [] v = "!" -> NRem(a, b) [] v = "^" -> NPow(a, b)
    [] v = "&" -> NMin(a, b) [] v = "|" -> NMax(a, b)
    [] v = "<" -> B(Less(a, b)) [] v = ">" -> B(Less(b, a)) [] v = "=" -> B(Equal(a, b))
    [] OTHER -> Err("not an atomic dyad")

\* where the reference defines an atomic dyad on two atoms
Atom2Dom(v, a, b) ==
  CASE v \in {"+", "-", "*"} -> IsNum(a) /\ IsNum(b)
    [] v = "%" -> IsNum(a) /\ IsNum(b)
    [] v \in {":%", "!"} -> IsInt(a) /\ IsInt(b) /\ b.v # 0
    [] v = "^" -> IsNum(a) /\ IsInt(b) /\ b.v \in -3..5 /\ ~(Nu(a) = 0 /\ b.v < 0)
    [] v \in {"&", "|"} -> (IsInt(a) /\ IsInt(b)) \/ (IsReal(a) /\ IsReal(b))
    [] v \in {"<", ">"} -> Comparable(a, b)
    [] v = "=" -> (IsInt(a) /\ IsInt(b)) \/ (IsChar(a) /\ IsChar(b)) \/ (IsStr(a) /\ IsStr(b)) \/ (IsSym(a) /\ IsSym(b))
    [] OTHER -> FALSE

Atom1(v, a) ==
  CASE v = "-" -> NNeg(a) [] v = "%" -> NRecip(a) [] v = "_" -> NFloor(a) [] v = ":#" -> C(a.v)
    [] OTHER -> Err("not an atomic monad")
Atom1Dom(v, a) ==
  CASE v \in {"-", "_"} -> IsNum(a)
    [] v = "%" -> IsNum(a)
    [] v = ":#" -> IsInt(a) /\ a.v \in 32..126
    [] OTHER -> FALSE

\* element-wise application through any nesting depth, with atom-to-list extension
RECURSIVE Ap1(_, _), Ap1Dom(_, _), Ap2(_, _, _), Ap2Dom(_, _, _)
Ap1(v, a) == IF IsList(a) THEN L([k \in 1..Len(a.v) |-> Ap1(v, a.v[k])]) ELSE Atom1(v, a)
Ap1Dom(v, a) == IF IsList(a) THEN \A k \in 1..Len(a.v) : Ap1Dom(v, a.v[k])
                ELSE Atom1Dom(v, a) /\ ~(v = "%" /\ Nu(a) = 0)       \* (inside lists; the scalar case is allowed below)
Ap2(v, a, b) ==
  IF IsList(a) /\ IsList(b) THEN L([k \in 1..Len(a.v) |-> Ap2(v, a.v[k], b.v[k])])
  ELSE IF IsList(a) THEN L([k \in 1..Len(a.v) |-> Ap2(v, a.v[k], b)])
  ELSE IF IsList(b) THEN L([k \in 1..Len(b.v) |-> Ap2(v, a, b.v[k])])
  ELSE Atom2(v, a, b)
Ap2Dom(v, a, b) ==
  IF IsList(a) /\ IsList(b) THEN Len(a.v) = Len(b.v) /\ \A k \in 1..Len(a.v) : Ap2Dom(v, a.v[k], b.v[k])
  \* (an empty list says nothing about the atom it is extended with: only numbers are admitted there)
  ELSE IF IsList(a) THEN (Len(a.v) > 0 \/ IsNum(b)) /\ \A k \in 1..Len(a.v) : Ap2Dom(v, a.v[k], b)
  ELSE IF IsList(b) THEN (Len(b.v) > 0 \/ IsNum(a)) /\ \A k \in 1..Len(b.v) : Ap2Dom(v, a, b.v[k])
  ELSE Atom2Dom(v, a, b) /\ ~(v = "%" /\ Nu(b) = 0)

-----------------------------------------------------------------------------
(* helpers on sequences of values                                            *)
Elems(a) == IF IsStr(a) THEN Chars(a) ELSE a.v           \* elements of a list or string as values
\* rebuild a value of a's kind (string stays string when all elements are characters)
Like(a, q) == IF IsStr(a) THEN S([k \in 1..Len(q) |-> q[k].v]) ELSE L(q)
RECURSIVE Rev(_)
Rev(q) == IF q = <<>> THEN <<>> ELSE Append(Rev(Tail(q)), Head(q))
PosMod(x, n) == ((x % n) + n) % n
RECURSIVE Uniq(_, _)
Uniq(q, acc) == IF q = <<>> THEN acc
                ELSE IF \E k \in 1..Len(acc) : Match(acc[k], Head(q)) THEN Uniq(Tail(q), acc)
                ELSE Uniq(Tail(q), Append(acc, Head(q)))
Positions(q, x) == LET P == {k \in 1..Len(q) : Match(q[k], x)} IN P
RECURSIVE SetToSeq(_)
SetToSeq(P) == IF P = {} THEN <<>> ELSE LET m == CHOOSE x \in P : \A y \in P : x <= y IN <<m>> \o SetToSeq(P \ {m})
IdxList(P) == L([k \in 1..Cardinality(P) |-> I(SetToSeq(P)[k] - 1)])
RECURSIVE Flat(_)
Flat(q) == IF q = <<>> THEN <<>> ELSE Head(q) \o Flat(Tail(q))
Repl(x, n) == [k \in 1..n |-> x]
\* less on list elements for grading: atoms by Less, lists pairwise and recursively
RECURSIVE GLess(_, _)
GLess(a, b) == IF IsList(a) /\ IsList(b)
               THEN (IF a.v = <<>> THEN b.v # <<>>
                     ELSE IF b.v = <<>> THEN FALSE
                     ELSE IF GLess(a.v[1], b.v[1]) THEN TRUE
                     ELSE IF GLess(b.v[1], a.v[1]) THEN FALSE
                     ELSE GLess(L(Tail(a.v)), L(Tail(b.v))))
               ELSE Less(a, b)
\* indices (1-based) of q in ascending order w.r.t. GLess (elements pairwise distinct in the domain)
RankOf(q, k) == Cardinality({j \in 1..Len(q) : GLess(q[j], q[k])})
GradeUp(q) == [r \in 1..Len(q) |-> CHOOSE k \in 1..Len(q) : RankOf(q, k) = r - 1]
Distinct(q) == \A j, k \in 1..Len(q) : j # k => (GLess(q[j], q[k]) \/ GLess(q[k], q[j]))
RECURSIVE GComparable(_, _)
GComparable(a, b) == IF IsList(a) /\ IsList(b) THEN \A k \in 1..(IF Len(a.v) < Len(b.v) THEN Len(a.v) ELSE Len(b.v)) : GComparable(a.v[k], b.v[k])
                     ELSE Comparable(a, b)

\* a 2-array: rows of equal length whose elements are not lists themselves
IsMatrix(a) == IsList(a) /\ Len(a.v) >= 1 /\ (\A k \in 1..Len(a.v) : IsList(a.v[k]) /\ Len(a.v[k].v) = Len(a.v[1].v)) /\ Len(a.v[1].v) >= 1
               /\ \A k \in 1..Len(a.v) : \A j \in 1..Len(a.v[k].v) : ~IsList(a.v[k].v[j])
AllInts(q) == \A k \in 1..Len(q) : IsInt(q[k])

-----------------------------------------------------------------------------
(* monads                                                                     *)
Monads == {"@", "!", "&", "*", "#", "^", ",", "~", "?", "|", "+", "=", "<", ">", "-", "%", "_", ":_", ":#"}

DomM(v, a) ==
  CASE v = "@" -> TRUE
    [] v = "!" -> IsInt(a) /\ a.v \in 0..12
    [] v = "&" -> (IsInt(a) /\ a.v \in 0..8) \/ (IsList(a) /\ AllInts(a.v) /\ \A k \in 1..Len(a.v) : a.v[k].v \in 0..4)
    [] v = "*" -> ~IsDict(a) /\ ~IsErr(a)
    [] v = "#" -> IsList(a) \/ IsStr(a) \/ IsNum(a) \/ IsChar(a)
    [] v = "^" -> ~IsDict(a) /\ ~((IsList(a) \/ IsStr(a)) /\ Len(a.v) = 0)
    [] v = "," -> ~IsChar(a) /\ ~IsDict(a)
    [] v = "~" -> IsAtom(a) /\ ~IsDict(a)
    [] v = "?" -> IsList(a) \/ IsStr(a)
    [] v = "|" -> ~IsDict(a)
    [] v = "+" -> IsMatrix(a) \/ (IsList(a) /\ Len(a.v) = 0)
    [] v = "=" -> IsList(a) \/ IsStr(a)
    [] v \in {"<", ">"} -> (IsStr(a) /\ Distinct(Chars(a))) \/
                           (IsList(a) /\ (\A j, k \in 1..Len(a.v) : GComparable(a.v[j], a.v[k])) /\ Distinct(a.v))
    [] v \in {"-", "_", ":#"} -> (IsList(a) /\ Ap1Dom(v, a)) \/ Atom1Dom(v, a)
    [] v = "%" -> (IsList(a) /\ Ap1Dom(v, a)) \/ IsNum(a)
    [] v = ":_" -> TRUE
    [] OTHER -> FALSE

Monad(v, a) ==
  CASE v = "@" -> B(IsAtom(a))
    [] v = "!" -> L([k \in 1..a.v |-> I(k - 1)])
    [] v = "&" -> IF IsInt(a) THEN L(Repl(I(0), a.v))
                  ELSE L(Flat([k \in 1..Len(a.v) |-> Repl(I(k - 1), a.v[k].v)]))
    [] v = "*" -> IF (IsList(a) \/ IsStr(a)) /\ Len(a.v) > 0 THEN Elems(a)[1] ELSE a
    [] v = "#" -> IF IsList(a) \/ IsStr(a) THEN I(Len(a.v)) ELSE IF IsChar(a) THEN I(a.v) ELSE NAbs(a)
    [] v = "^" -> IF ShapeOf(a) = <<>> THEN I(0) ELSE L([k \in 1..Len(ShapeOf(a)) |-> I(ShapeOf(a)[k])])
    [] v = "," -> L(<<a>>)
    [] v = "~" -> B(~Truth(a))
    [] v = "?" -> Like(a, Uniq(Elems(a), <<>>))
    [] v = "|" -> IF IsList(a) \/ IsStr(a) THEN Like(a, Rev(Elems(a))) ELSE a
    [] v = "+" -> IF Len(a.v) = 0 THEN a
                  ELSE L([c \in 1..Len(a.v[1].v) |-> L([r \in 1..Len(a.v) |-> a.v[r].v[c]])])
    [] v = "=" -> LET q == Elems(a) u == Uniq(q, <<>>) IN L([g \in 1..Len(u) |-> IdxList(Positions(q, u[g]))])
    [] v = "<" -> LET q == Elems(a) IN L([k \in 1..Len(q) |-> I(GradeUp(q)[k] - 1)])
    [] v = ">" -> LET q == Elems(a) IN L([k \in 1..Len(q) |-> I(GradeUp(q)[Len(q) + 1 - k] - 1)])
    [] v \in {"-", "%", "_", ":#"} -> Ap1(v, a)
    [] v = ":_" -> B(IsUndef(a))
    [] OTHER -> Err("unknown monad")

-----------------------------------------------------------------------------
(* dyads                                                                       *)
Dyads == AtomicD \cup {"~", ",", "#", "_", "@", "?", ":+", ":#", ":_", ":^", ":=", ":-"}

\* substring positions (0-based) of p in s, both sequences of code points
SubPos(s, p) == {k \in 0..(Len(s) - Len(p)) : SubSeq(s, k + 1, k + Len(p)) = p}

Take(a, b) ==  \* a integer, b list or string
  LET q == Elems(b) n == Len(q) m == Abs(a.v) IN
  IF m = 0 THEN Like(b, <<>>)
  ELSE IF a.v > 0 THEN Like(b, [k \in 1..m |-> q[((k - 1) % n) + 1]])
  ELSE Like(b, [k \in 1..m |-> q[PosMod(k - 1 - m, n) + 1]])

Drop(a, b) ==
  LET q == Elems(b) n == Len(q) m == Abs(a.v) IN
  IF m >= n THEN Like(b, <<>>)
  ELSE IF a.v >= 0 THEN Like(b, SubSeq(q, m + 1, n)) ELSE Like(b, SubSeq(q, 1, n - m))

Rotate(a, b) ==
  LET q == Elems(b) n == Len(q) IN
  IF n = 0 THEN b ELSE Like(b, [k \in 1..n |-> q[PosMod(k - 1 - a.v, n) + 1]])

\* split q into segments whose sizes cycle through sz (sequence of positive integers)
RECURSIVE SplitBy(_, _, _)
SplitBy(q, sz, j) == IF q = <<>> THEN <<>>
                     ELSE LET n == sz[((j - 1) % Len(sz)) + 1] IN
                          IF n >= Len(q) THEN <<q>> ELSE <<SubSeq(q, 1, n)>> \o SplitBy(SubSeq(q, n + 1, Len(q)), sz, j + 1)
\* cut q before the positions in ps (non-decreasing, within 0..Len(q))
RECURSIVE CutAt(_, _, _)
CutAt(q, ps, from) == IF ps = <<>> THEN <<SubSeq(q, from + 1, Len(q))>>
                      ELSE <<SubSeq(q, from + 1, Head(ps))>> \o CutAt(q, Tail(ps), Head(ps))
IntsOf(a) == IF IsInt(a) THEN <<a.v>> ELSE [k \in 1..Len(a.v) |-> a.v[k].v]
NonDecr(p) == \A k \in 1..(Len(p) - 1) : p[k] <= p[k + 1]
RECURSIVE Prod(_)
Prod(p) == IF p = <<>> THEN 1 ELSE Head(p) * Prod(Tail(p))
\* build an array of shape sh from the cyclic source q, starting at offset off (0-based)
RECURSIVE Build(_, _, _)
Build(sh, q, off) == IF Len(sh) = 1 THEN L([k \in 1..sh[1] |-> q[((off + k - 1) % Len(q)) + 1]])
                     ELSE LET step == Prod(Tail(sh)) IN L([k \in 1..sh[1] |-> Build(Tail(sh), q, off + (k - 1) * step)])
FlatAtoms(b) == IsList(b) /\ Len(b.v) >= 1 /\ \A k \in 1..Len(b.v) : ~IsList(b.v[k]) /\ ~IsStr(b.v[k]) /\ ~IsDict(b.v[k])
RECURSIVE Amend(_, _, _)
Amend(q, x, idx) == IF idx = <<>> THEN q ELSE Amend([q EXCEPT ![Head(idx) + 1] = x], x, Tail(idx))

\* a:-v,path  (Amend-in-Depth): the element reached by the path of indices is replaced, everything else is unchanged
RECURSIVE AmendDepth(_, _, _), PathOk(_, _)
AmendDepth(a, x, path) == IF Len(path) = 1 THEN L([a.v EXCEPT ![path[1] + 1] = x])
                          ELSE L([a.v EXCEPT ![path[1] + 1] = AmendDepth(a.v[path[1] + 1], x, Tail(path))])
\* "the number of indices must match the rank of the array": the path ends at an element that is not itself a list
PathOk(a, path) == /\ IsList(a) /\ path[1] \in 0..(Len(a.v) - 1)
                   /\ (IF Len(path) > 1 THEN PathOk(a.v[path[1] + 1], Tail(path)) ELSE ~IsList(a.v[path[1] + 1]))

Len0E(a) == (IsList(a) \/ IsStr(a)) /\ Len(a.v) = 0

DomD(v, a, b) ==
  CASE v \in AtomicD -> Ap2Dom(v, a, b) \/ (v = "%" /\ IsNum(a) /\ IsNum(b))
    [] v = "~" -> ~IsDict(a) /\ ~IsDict(b) /\ ~(Len0E(a) /\ Len0E(b) /\ a.t # b.t)
    [] v = "," -> ~IsDict(a) /\ ~IsDict(b) /\ ~(IsChar(a) /\ IsChar(b))      \* two characters: tuple or string? (silent)
    [] v = "#" -> IsInt(a) /\ a.v \in -7..7 /\ (IsList(b) \/ IsStr(b)) /\ (Len(b.v) > 0 \/ a.v = 0)
    [] v = "_" -> IsInt(a) /\ a.v \in -7..7 /\ (IsList(b) \/ IsStr(b))
    [] v = "@" -> (IsList(a) \/ IsStr(a)) /\ ((IsInt(b) /\ b.v \in 0..(Len(a.v) - 1)) \/
                    (IsList(b) /\ Len(b.v) >= 1 /\ AllInts(b.v) /\ \A k \in 1..Len(b.v) : b.v[k].v \in 0..(Len(a.v) - 1)))
    [] v = "?" -> (IsList(a) /\ ~IsDict(b)) \/ (IsStr(a) /\ (IsChar(b) \/ IsStr(b)))
    [] v = ":+" -> IsInt(a) /\ a.v \in -7..7 /\ (IsList(b) \/ IsStr(b)) /\ Len(b.v) >= 1
    [] v = ":#" -> (IsList(b) \/ IsStr(b)) /\ Len(b.v) >= 1 /\
                   ((IsInt(a) /\ a.v \in 1..7) \/ (IsList(a) /\ Len(a.v) >= 2 /\ AllInts(a.v) /\ \A k \in 1..Len(a.v) : a.v[k].v \in 1..4))
    [] v = ":_" -> (IsList(b) \/ IsStr(b)) /\ Len(b.v) >= 1 /\
                   ((IsInt(a) /\ a.v \in 0..Len(b.v)) \/
                    (IsList(a) /\ Len(a.v) >= 1 /\ AllInts(a.v) /\ NonDecr(IntsOf(a)) /\ \A k \in 1..Len(a.v) : a.v[k].v \in 0..Len(b.v)))
    [] v = ":^" -> \/ ((IsInt(a) /\ a.v \in 1..6) \/ (IsList(a) /\ Len(a.v) \in 1..3 /\ AllInts(a.v) /\ \A k \in 1..Len(a.v) : a.v[k].v \in 1..3))
                      /\ (FlatAtoms(b) \/ (IsAtom(b) /\ ~IsDict(b) /\ ~IsList(b) /\ ~IsStr(b)))
                   \* -1 in the shape denotes half the size of the source vector (which must have an even size >= 2)
                   \/ IsList(a) /\ Len(a.v) = 2 /\ AllInts(a.v) /\ (\A k \in 1..2 : a.v[k].v \in {-1, 1, 2, 3})
                      /\ (\E k \in 1..2 : a.v[k].v = -1) /\ FlatAtoms(b) /\ Len(b.v) >= 2 /\ Len(b.v) % 2 = 0
    [] v = ":=" -> \/ IsList(a) /\ Len(a.v) >= 1 /\ IsList(b) /\ Len(b.v) >= 2 /\ AllInts(Tail(b.v)) /\
                      (\A k \in 2..Len(b.v) : b.v[k].v \in 0..(Len(a.v) - 1)) /\
                      (\A k \in 1..Len(a.v) : a.v[k].t = b.v[1].t) /\ ~IsList(b.v[1]) /\ ~IsStr(b.v[1])
                   \* a string amended with a CHARACTER at positions inside the string
                   \/ IsStr(a) /\ Len(a.v) >= 1 /\ IsList(b) /\ Len(b.v) >= 2 /\ AllInts(Tail(b.v)) /\ IsChar(b.v[1]) /\
                      (\A k \in 2..Len(b.v) : b.v[k].v \in 0..(Len(a.v) - 1))
    [] v = ":-" -> IsList(a) /\ IsList(b) /\ Len(b.v) \in 2..4 /\ AllInts(Tail(b.v)) /\ ~IsList(b.v[1]) /\ ~IsDict(b.v[1])
                   /\ PathOk(a, [k \in 1..(Len(b.v) - 1) |-> b.v[k + 1].v])
    [] OTHER -> FALSE

Dyad(v, a, b) ==
  CASE v \in AtomicD -> IF IsList(a) \/ IsList(b) THEN Ap2(v, a, b) ELSE Atom2(v, a, b)
    [] v = "~" -> B(Match(a, b))
    [] v = "," -> CASE IsList(a) /\ IsList(b) -> L(a.v \o b.v)
                    [] IsList(a) -> L(Append(a.v, b))
                    [] IsList(b) -> L(<<a>> \o b.v)
                    [] IsStr(a) /\ IsStr(b) -> S(a.v \o b.v)
                    [] IsStr(a) /\ IsChar(b) -> S(Append(a.v, b.v))
                    [] IsChar(a) /\ IsStr(b) -> S(<<a.v>> \o b.v)
                    [] OTHER -> L(<<a, b>>)
    [] v = "#" -> Take(a, b)
    [] v = "_" -> Drop(a, b)
    [] v = "@" -> IF IsInt(b) THEN Elems(a)[b.v + 1] ELSE Like(a, [k \in 1..Len(b.v) |-> Elems(a)[b.v[k].v + 1]])
    [] v = "?" -> IF IsStr(a) /\ IsStr(b) THEN L([k \in 1..Cardinality(SubPos(a.v, b.v)) |-> I(SetToSeq(SubPos(a.v, b.v))[k])])
                  ELSE IdxList(Positions(Elems(a), b))
    [] v = ":+" -> Rotate(a, b)
    [] v = ":#" -> LET segs == SplitBy(Elems(b), IntsOf(a), 1) IN L([k \in 1..Len(segs) |-> Like(b, segs[k])])
    [] v = ":_" -> LET segs == CutAt(Elems(b), IntsOf(a), 0) IN L([k \in 1..Len(segs) |-> Like(b, segs[k])])
    [] v = ":^" -> Build([k \in 1..Len(IntsOf(a)) |-> IF IntsOf(a)[k] = -1 THEN Len(b.v) \div 2 ELSE IntsOf(a)[k]],
                         IF IsList(b) THEN b.v ELSE <<b>>, 0)
    [] v = ":=" -> IF IsStr(a) THEN S(Amend(a.v, b.v[1].v, [k \in 1..(Len(b.v) - 1) |-> b.v[k + 1].v]))
                   ELSE L(Amend(a.v, b.v[1], [k \in 1..(Len(b.v) - 1) |-> b.v[k + 1].v]))
    [] v = ":-" -> AmendDepth(a, b.v[1], [k \in 1..(Len(b.v) - 1) |-> b.v[k + 1].v])
    [] OTHER -> Err("unknown dyad")
=============================================================================
