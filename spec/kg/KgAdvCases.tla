------------------------------ MODULE KgAdvCases ------------------------------
(* C02: enumeration of adverb x verb x operand cases and the value their definitional expansion prescribes. *)
EXTENDS KgAdverbs, TLC, Json
CONSTANT Tier

Ints(q) == L([k \in 1..Len(q) |-> I(q[k])])
A0 == << I(5), R(5, 2), L(<<>>), Ints(<<7>>), Ints(<<1, 2, 3>>), Ints(<<3, 1, 2>>), Ints(<<1, 2, 3, 4, 5>>),
         L(<<Ints(<<1, 2>>), Ints(<<3, 4>>)>>), L(<<Ints(<<1, 2, 3>>), Ints(<<4, 5, 6>>)>>), S(<<97, 98, 99>>),
         L(<<R(1, 2), R(3, 2)>>), I(2), I(0) >>
A1 == A0 \o << Ints(<<5, 4>>), L(<<I(1), Ints(<<2, 3>>)>>), L(<<Ints(<<1>>), Ints(<<2, 3>>), L(<<>>)>>), S(<<>>), S(<<120>>),
               L(<<Ints(<<1, 2>>), Ints(<<3, 4>>), Ints(<<5, 6>>)>>), I(-3), Ints(<<0, 0, 1>>) >>
Ops == IF Tier = "quick" THEN A0 ELSE A1

DyV == << Op("+"), Op("-"), Op("*"), Op("|"), Op("&"), Op(","), Op("="), Op("<"),
          Lam("sub"), Lam("nas"), Lam("rgt"), Lam("pair"), Lam("pyd") >>
MoV == << Op("-"), Op("#"), Op(","), Op("|"), Lam("dbl"), Lam("neg"), Lam("dec"), Lam("pym"), Lam("cnt") >>
CvV == << Lam("half"), Adv("over", Op(",")) >>                       \* verbs with a fixpoint
IxV == << Lam("ix0"), Lam("ix1"), Lam("ixm") >>
ChV == << Adv("over", Op("+")), Adv("over", Lam("sub")), Adv("over", Op(",")), Adv("scan", Op("+")), Adv("scan", Lam("nas")),
          Adv("each", Lam("dbl")), Adv("each", Op("-")), Adv("eachpair", Lam("sub")), Adv("over", Op("|")), Adv("over", Op("&")),
          Adv("over", Op("-")), Adv("scan", Op("-")), Adv("eachpair", Op("-")), Adv("over", Op("*")), Adv("scan", Op("*")) >>

\* While and Scan-While take two verbs: p f:~a, p f\~a  (entries of WhV are <<p, f>>)
WhV == << <<Lam("lt20"), Lam("dbl")>>, <<Lam("lt20"), Lam("pym")>>, <<Lam("lt20"), Lam("sq1")>>, <<Lam("pos"), Lam("dec")>>,
          <<Lam("pos"), Lam("half")>>, <<Lam("lt20"), Adv("over", Op("+"))>> >>
\* forms: name, arity (1: f adv a ; 2: a f adv b), verb list
Forms == << [n |-> "each", ar |-> 1, vs |-> MoV], [n |-> "eachpair", ar |-> 1, vs |-> DyV], [n |-> "over", ar |-> 1, vs |-> DyV],
            [n |-> "scan", ar |-> 1, vs |-> DyV], [n |-> "converge", ar |-> 1, vs |-> CvV], [n |-> "scanconverge", ar |-> 1, vs |-> CvV],
            [n |-> "eachindex", ar |-> 1, vs |-> IxV], [n |-> "each", ar |-> 1, vs |-> ChV],
            [n |-> "each", ar |-> 2, vs |-> DyV], [n |-> "eachleft", ar |-> 2, vs |-> DyV], [n |-> "eachright", ar |-> 2, vs |-> DyV],
            [n |-> "over", ar |-> 2, vs |-> DyV], [n |-> "scan", ar |-> 2, vs |-> DyV],
            [n |-> "iterate", ar |-> 2, vs |-> MoV], [n |-> "scaniterate", ar |-> 2, vs |-> MoV],
            [n |-> "while", ar |-> 1, vs |-> WhV], [n |-> "scanwhile", ar |-> 1, vs |-> WhV] >>

VARIABLES fi, vi, ai, bi
Init == fi = 1 /\ vi = 1 /\ ai = 1 /\ bi = 1
F == Forms[fi]
N == Len(Ops)
IsWh == F.n \in {"while", "scanwhile"}
Verb == IF IsWh THEN F.vs[vi][2] ELSE Adv(F.n, F.vs[vi])
Expected == IF F.n = "while" THEN WhileF(F.vs[vi][1], F.vs[vi][2], Ops[ai])
            ELSE IF F.n = "scanwhile" THEN ScanWhileF(F.vs[vi][1], F.vs[vi][2], Ops[ai])
            ELSE IF F.ar = 1 THEN Ap1F(Verb, Ops[ai]) ELSE Ap2F(Verb, Ops[ai], Ops[bi])
Case == [form |-> F.n, ar |-> F.ar, f |-> IF IsWh THEN F.vs[vi][2] ELSE F.vs[vi], p |-> IF IsWh THEN F.vs[vi][1] ELSE Op("-"),
         a |-> Ops[ai], b |-> IF F.ar = 2 THEN Ops[bi] ELSE I(0), exp |-> Expected]
Done == fi > Len(Forms)
Next == /\ ~Done
        /\ IF F.ar = 2 /\ bi < N THEN bi' = bi + 1 /\ UNCHANGED <<fi, vi, ai>>
           ELSE IF ai < N THEN ai' = ai + 1 /\ bi' = 1 /\ UNCHANGED <<fi, vi>>
           ELSE IF vi < Len(F.vs) THEN vi' = vi + 1 /\ ai' = 1 /\ bi' = 1 /\ UNCHANGED fi
           ELSE fi' = fi + 1 /\ vi' = 1 /\ ai' = 1 /\ bi' = 1
Emit == (~Done /\ ~HasErr(Expected)) => PrintT(ToJson(Case))
=============================================================================
