------------------------------ MODULE FrameTrace ------------------------------
EXTENDS Integers, Sequences, TLC, Json, IOUtils
F == INSTANCE FrameAbs
Traces == JsonDeserialize(IOEnv.TRACE_FILE)
VARIABLE i
Init == i = 0
Next == /\ i < Len(Traces) /\ i' = i + 1
        /\ PrintT(ToJson([tid |-> Traces[i + 1].tid, bad |-> F!Judge(Traces[i + 1])]))
=============================================================================
