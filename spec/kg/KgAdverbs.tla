------------------------------ MODULE KgAdverbs ------------------------------
(***************************************************************************)
(* C02 - the adverbs of Klong, each BY ITS DEFINITIONAL EXPANSION in terms  *)
(* of plain applications of the verb (Ap1 / Ap2).  Deliberately no          *)
(* shortcuts: one generic fold, one generic map.  A verb is a descriptor    *)
(*   [k |-> "op",  v |-> "+"]                 a primitive operator           *)
(*   [k |-> "lam", v |-> name]                a function of the closed set   *)
(*                                            below (the harness defines the *)
(*                                            same functions as Klong lambdas*)
(*                                            / projections / Python         *)
(*                                            callables)                     *)
(*   [k |-> "adv", v |-> adverb, f |-> verb]  a verb modified by an adverb   *)
(*                                            (adverb chains compose left to *)
(*                                            right: f/' is Each of (f/))    *)
(* Outside the domain of a verb the result is Err; a case whose evaluation  *)
(* meets Err anywhere is discarded, never judged.                           *)
(***************************************************************************)
EXTENDS KgVerbs

Op(v) == [k |-> "op", v |-> v]
Lam(n) == [k |-> "lam", v |-> n]
Adv(a, f) == [k |-> "adv", v |-> a, f |-> f]

Fuel == 12

DyadD(v, a, b) == IF IsErr(a) \/ IsErr(b) THEN Err("arg") ELSE IF DomD(v, a, b) THEN Dyad(v, a, b) ELSE Err("domain")
MonadD(v, a) == IF IsErr(a) THEN Err("arg") ELSE IF DomM(v, a) THEN Monad(v, a) ELSE Err("domain")

\* the closed set of user functions (same text on the Klong side, see harness/props/c02.py)
\*  dyadic:  sub {x-y}   nas {(2*x)-y}   rgt {y}   pair {x,y}   pyd (Python) x-2*y
\*  monadic: dbl {x*2}   neg {-x}   dec {x-y}(;1) (projection)   pym (Python) x+10   cnt {#x}   half {x:%2}
LamD(n, a, b) ==
  CASE n = "sub" -> DyadD("-", a, b)
    [] n = "nas" -> DyadD("-", DyadD("*", I(2), a), b)
    [] n = "rgt" -> b
    [] n = "pair" -> DyadD(",", a, b)
    [] n = "pyd" -> DyadD("-", a, DyadD("*", I(2), b))
    [] OTHER -> Err("not a dyadic function")
LamM(n, a) ==
  CASE n = "dbl" -> DyadD("*", a, I(2))
    [] n = "neg" -> MonadD("-", a)
    [] n = "dec" -> DyadD("-", a, I(1))
    [] n = "pym" -> DyadD("+", a, I(10))
    [] n = "cnt" -> MonadD("#", a)
    [] n = "half" -> DyadD(":%", a, I(2))
    [] n = "lt20" -> DyadD("<", a, I(20))
    [] n = "pos" -> DyadD(">", a, I(0))
    [] n = "sq1" -> DyadD("+", DyadD("*", a, a), I(1))
    [] n = "ix0" -> DyadD("@", a, I(0))
    [] n = "ix1" -> DyadD("@", a, I(1))
    [] n = "ixm" -> DyadD("*", DyadD("@", a, I(0)), DyadD("@", a, I(1)))
    [] OTHER -> Err("not a monadic function")

RECURSIVE Ap1F(_, _), Ap2F(_, _, _), Fold(_, _, _), Scan(_, _, _, _), Iter(_, _, _), IterScan(_, _, _, _)
RECURSIVE Conv(_, _, _), ConvScan(_, _, _, _), While(_, _, _, _), WhileScan(_, _, _, _, _)

\* elements of the operand an adverb maps over: the members of a list, the characters of a string
Mem(a) == IF IsStr(a) THEN Chars(a) ELSE a.v
IsSeq(a) == IsList(a) \/ IsStr(a)

Fold(f, acc, q) == IF q = <<>> THEN acc ELSE Fold(f, Ap2F(f, acc, Head(q)), Tail(q))
Scan(f, acc, q, out) == IF q = <<>> THEN out
                        ELSE LET n == Ap2F(f, acc, Head(q)) IN Scan(f, n, Tail(q), Append(out, n))
Iter(f, n, x) == IF n = 0 THEN x ELSE Iter(f, n - 1, Ap1F(f, x))
IterScan(f, n, x, out) == IF n = 0 THEN out ELSE LET y == Ap1F(f, x) IN IterScan(f, n - 1, y, Append(out, y))
Conv(f, x, fuel) == IF fuel = 0 THEN Err("fuel")
                    ELSE LET y == Ap1F(f, x) IN IF IsErr(y) THEN y ELSE IF Match(y, x) THEN y ELSE Conv(f, y, fuel - 1)
ConvScan(f, x, out, fuel) == IF fuel = 0 THEN <<Err("fuel")>>
                             ELSE LET y == Ap1F(f, x) IN
                                  IF IsErr(y) THEN <<y>> ELSE IF Match(y, x) THEN out ELSE ConvScan(f, y, Append(out, y), fuel - 1)
While(p, f, x, fuel) == IF fuel = 0 THEN Err("fuel")
                        ELSE LET c == Ap1F(p, x) IN
                             IF IsErr(c) THEN c ELSE IF IsList(c) \/ IsStr(c) THEN Err("domain")   \* the test must yield an atom
                             ELSE IF ~Truth(c) THEN x ELSE While(p, f, Ap1F(f, x), fuel - 1)
WhileScan(p, f, x, out, fuel) == IF fuel = 0 THEN <<Err("fuel")>>
                                 ELSE LET c == Ap1F(p, x) IN
                                      IF IsErr(c) THEN <<c>> ELSE IF IsList(c) \/ IsStr(c) THEN <<Err("domain")>> ELSE IF ~Truth(c) THEN out
                                      ELSE WhileScan(p, f, Ap1F(f, x), Append(out, x), fuel - 1)

\* monadic use of a verb
Ap1F(f, a) ==
  IF IsErr(a) THEN a
  ELSE CASE f.k = "op" -> MonadD(f.v, a)
         [] f.k = "lam" -> LamM(f.v, a)
         [] f.k = "adv" ->
              CASE f.v = "each" ->        \* f'a
                     IF IsSeq(a) THEN (IF Len(a.v) = 0 THEN a ELSE L([k \in 1..Len(Mem(a)) |-> Ap1F(f.f, Mem(a)[k])]))
                     ELSE Ap1F(f.f, a)
                [] f.v = "eachpair" ->    \* f:'a
                     IF IsSeq(a) /\ Len(a.v) > 1 THEN L([k \in 1..(Len(Mem(a)) - 1) |-> Ap2F(f.f, Mem(a)[k], Mem(a)[k + 1])]) ELSE a
                [] f.v = "over" ->        \* f/a
                     IF IsSeq(a) THEN (IF Len(a.v) = 0 THEN a ELSE Fold(f.f, Mem(a)[1], Tail(Mem(a)))) ELSE a
                [] f.v = "scan" ->        \* f\a
                     IF IsSeq(a) THEN (IF Len(a.v) = 0 THEN a ELSE L(Scan(f.f, Mem(a)[1], Tail(Mem(a)), <<Mem(a)[1]>>))) ELSE L(<<a>>)
                [] f.v = "converge" -> Conv(f.f, a, Fuel)                       \* f:~a
                [] f.v = "scanconverge" -> L(ConvScan(f.f, a, <<a>>, Fuel))    \* f\~a
                [] f.v = "eachindex" ->   \* f@'a
                     IF IsSeq(a) THEN L([k \in 1..Len(Mem(a)) |-> Ap1F(f.f, L(<<I(k - 1), Mem(a)[k]>>))]) ELSE Err("domain")
                [] OTHER -> Err("adverb has no monadic use")
         [] OTHER -> Err("not a verb")

\* dyadic use of a verb
Ap2F(f, a, b) ==
  IF IsErr(a) THEN a ELSE IF IsErr(b) THEN b
  ELSE CASE f.k = "op" -> DyadD(f.v, a, b)
         [] f.k = "lam" -> LamD(f.v, a, b)
         [] f.k = "adv" ->
              CASE f.v = "each" ->        \* a f'b   (Each-2)
                     IF IsSeq(a) /\ IsSeq(b)
                     THEN LET n == IF Len(a.v) < Len(b.v) THEN Len(a.v) ELSE Len(b.v) IN
                          L([k \in 1..n |-> Ap2F(f.f, Mem(a)[k], Mem(b)[k])])
                     ELSE IF ~IsSeq(a) /\ ~IsSeq(b) THEN Ap2F(f.f, a, b)
                     ELSE Err("domain")     \* list with atom: the reference is silent
                [] f.v = "eachleft" ->    \* a f:\b
                     IF IsSeq(b) THEN (IF Len(b.v) = 0 THEN L(<<>>) ELSE L([k \in 1..Len(Mem(b)) |-> Ap2F(f.f, a, Mem(b)[k])]))
                     ELSE Ap2F(f.f, a, b)
                [] f.v = "eachright" ->   \* a f:/b
                     IF IsSeq(b) THEN (IF Len(b.v) = 0 THEN L(<<>>) ELSE L([k \in 1..Len(Mem(b)) |-> Ap2F(f.f, Mem(b)[k], a)]))
                     ELSE Ap2F(f.f, b, a)
                \* (for a LIST a the two descriptions of the reference - "combined with the first element" and
                \*  "formally f/a,b" - differ: only atoms are admitted as the neutral element)
                [] f.v = "over" ->        \* a f/b   (Over-Neutral)
                     IF IsSeq(a) /\ Len(a.v) > 0 THEN Err("domain")
                     ELSE IF IsSeq(b) THEN Fold(f.f, a, Mem(b)) ELSE Ap2F(f.f, a, b)
                [] f.v = "scan" ->        \* a f\b   (Scan-Over-Neutral)
                     IF IsSeq(a) THEN Err("domain")
                     ELSE IF IsSeq(b) THEN L(Scan(f.f, a, Mem(b), <<a>>)) ELSE L(<<a, Ap2F(f.f, a, b)>>)
                [] f.v = "iterate" ->     \* n f:*b
                     IF IsInt(a) /\ a.v \in 0..6 THEN Iter(f.f, a.v, b) ELSE Err("domain")
                [] f.v = "scaniterate" -> \* n f\*b
                     IF IsInt(a) /\ a.v \in 0..6 THEN L(IterScan(f.f, a.v, b, <<b>>)) ELSE Err("domain")
                [] OTHER -> Err("adverb has no dyadic use")
         [] OTHER -> Err("not a verb")

\* p f:~b (While) and p f\~b (Scan-While) take two verbs
WhileF(p, f, b) == While(p, f, b, Fuel)
ScanWhileF(p, f, b) == L(WhileScan(p, f, b, <<>>, Fuel))

RECURSIVE HasErr(_)
HasErr(a) == IsErr(a) \/ (IsList(a) /\ \E k \in 1..Len(a.v) : HasErr(a.v[k]))
=============================================================================
