------------------------------ MODULE ParseTrace ------------------------------
EXTENDS ParseAbs, TLC, Json, IOUtils
Obs == JsonDeserialize(IOEnv.TRACE_FILE)
VARIABLE i
Init == i = 0
\* one TLC state per block of observations; only non-ok verdicts are printed, plus the count
Block == 2000
Bad(lo, hi) == {[tid |-> Obs[k].tid, bad |-> Verdict(Obs[k])] : k \in {q \in lo..hi : Verdict(Obs[q]) # "ok"}}
Next == /\ i * Block < Len(Obs) /\ i' = i + 1
        /\ LET hi == IF (i + 1) * Block < Len(Obs) THEN (i + 1) * Block ELSE Len(Obs) IN
           PrintT(ToJson([block |-> i, judged |-> hi - i * Block, bad |-> Bad(i * Block + 1, hi)]))
=============================================================================
