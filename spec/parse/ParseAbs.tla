------------------------------- MODULE ParseAbs -------------------------------
(***************************************************************************)
(* C12 - parsing always terminates and is repeatable, as a judgement over    *)
(* one observation per input text:                                          *)
(*  [n, calls, done, outcome, again, vars_same, eval_cmp]                   *)
(*   n         length of the text in characters                             *)
(*   calls     function calls (Python and builtin) made by prog(text)       *)
(*             until it returned, raised, or was stopped                    *)
(*   done      prog returned or raised (FALSE: stopped by the harness at    *)
(*             2 * Budget(n) calls or by its wall-clock backstop)           *)
(*   outcome   "program" | "error"                                          *)
(*   again     "same" | "differs" | "na": a second prog(text) in the same   *)
(*             module gives a structurally identical program / the same     *)
(*             error class                                                  *)
(*   vars_same parsing (both times) left the set and values of variables    *)
(*             unchanged                                                    *)
(*   eval_cmp  "same" | "differs" | "na": evaluating the first and the      *)
(*             second program in twin interpreters gives the same result    *)
(*                                                                         *)
(* The fixed polynomial: the hand-written parser looks at every position a  *)
(* bounded number of times per nesting level, so the work is at most        *)
(* quadratic in the length; the constants are generous (a correct tree      *)
(* stays below a tenth of the budget on every input of the universe, which  *)
(* the harness reports as headroom).                                        *)
(***************************************************************************)
EXTENDS Integers, Sequences

Budget(n) == 2000 + 400 * n + 40 * n * n

Verdict(o) ==
  IF ~o.done THEN "ParseDoesNotTerminateWithinBudget"
  ELSE IF o.calls > Budget(o.n) THEN "WorkExceedsPolynomialBound"
  ELSE IF o.again = "differs" THEN "ParseNotRepeatable"
  ELSE IF ~o.vars_same THEN "ParsingChangedVariables"
  ELSE IF o.eval_cmp = "differs" THEN "ReparsedProgramEvaluatesDifferently"
  ELSE "ok"
=============================================================================
