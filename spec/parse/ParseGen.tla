------------------------------- MODULE ParseGen -------------------------------
(* C12: all strings over the token alphabet up to length MaxLen (as sequences of token indices; the harness holds the   *)
(* token texts in the same order - harness/props/c12.py TOKENS).                                                        *)
EXTENDS Integers, Sequences, TLC, Json
CONSTANTS NTokens, MaxLen
VARIABLE s
Init == s = <<>>
Next == Len(s) < MaxLen /\ \E k \in 1..NTokens : s' = Append(s, k)
Emit == PrintT(ToJson(s))
=============================================================================
