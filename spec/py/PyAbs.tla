-------------------------------- MODULE PyAbs --------------------------------
(***************************************************************************)
(* C09 - the interpreter as a dictionary of Python values and functions,   *)
(* as a monitor over operations with their observed results.  Values are   *)
(* canonical texts ("1", "[1 2]", "'ab'").                                *)
(*                                                                         *)
(* state  store : [name -> entry]   entry.kind in {"none","data","py","kg"} *)
(*        cnt   : [callable id -> number of times it has been invoked]      *)
(*        wraps : [slot -> name]    Python-side handles obtained by klong[n]*)
(* Every Python callable has an id, an arity (its parameters are the first  *)
(* ar of x, y, z), optionally a leading `klong` parameter, logs each        *)
(* invocation (id, received arguments, whether it got the interpreter) and  *)
(* returns the fresh value id*1000 + (number of its invocations so far);    *)
(* a callable stored with rz = TRUE raises after logging (the application   *)
(* must then fail, after exactly one invocation).                           *)
(*                                                                         *)
(* events                                                                  *)
(*  setdata(n, v)  setpy(n, id, ar, kl)  defkg(n, ar, body)  del(n)         *)
(*  getwrap(w, n)                                                          *)
(*  readdata(n, via, obs)        via = "python": klong[n]; "klong": program *)
(*  callpy(n, form, args, log, res)   application of a Python callable      *)
(*        form: direct | at | projl | projr | projm | each | over | pyread  *)
(*  callwrap(w, args, res)       Python call of the handle, integer args    *)
(*  callkg(n, args, res)         the Klong call n(a;b;c)                    *)
(***************************************************************************)
EXTENDS Integers, Sequences, FiniteSets, TLC

None == [kind |-> "none", id |-> 0, ar |-> 0, kl |-> FALSE, rz |-> FALSE, body |-> "", v |-> ""]
\* callable 9 is registered by the harness before every history as pf (one parameter x; it raises KeyError when x = 3): the
\* body "viapy" = {pf(x)} reaches it THROUGH a Klong function
Pf == 9
MonInit(Names, Slots, MaxId) == [store |-> [n \in Names |-> None], cnt |-> [i \in (1..MaxId) \cup {Pf} |-> 0],
                                 wraps |-> [w \in Slots |-> ""], bad |-> "ok"]

RECURSIVE Join(_)
Join(q) == IF q = <<>> THEN "" ELSE IF Len(q) = 1 THEN q[1] ELSE q[1] \o " " \o Join(Tail(q))
ListT(q) == "[" \o Join(q) \o "]"
IntT(i) == IF i < 0 THEN "-" \o ToString(-i) ELSE ToString(i)
Ret(id, c) == ToString(id * 1000 + c)

\* the value of a Klong function body for integer arguments a (same texts as harness/props/c09.py BODIES)
Body(b, a) ==
  CASE b = "seven" -> "7"                              \* {7}
    [] b = "inc" -> IntT(a[1] + 1)                     \* {x+1}
    [] b = "neg" -> IntT(-a[1])                        \* {-x}          x only under a monadic operator
    [] b = "cnt" -> IntT(a[1])                         \* {#x}          (size of a positive integer: its magnitude)
    [] b = "enl" -> ListT(<<IntT(a[1])>>)              \* {,x}
    [] b = "sub" -> IntT(a[1] - a[2])                  \* {x-y}
    [] b = "right" -> IntT(a[2])                       \* {y}           x is not mentioned
    [] b = "pair" -> ListT(<<IntT(a[1]), IntT(a[2])>>) \* {x,y}
    [] b = "negy" -> IntT(a[1] + (-a[2]))              \* {x+-y}
    [] b = "viapy" -> "?"                              \* {pf(x)}        judged by ViaPy below
    [] b = "sum3" -> IntT(a[1] + a[2] + a[3])          \* {x+y+z}
    [] b = "third" -> IntT(a[3])                       \* {z}
    [] b = "xz" -> IntT(a[1] * a[3])                   \* {x*z}         y is not mentioned
    [] b = "pleft" -> IntT(1 - a[1])                   \* sb(1;)        a projection of sb::{x-y}: a monad
    [] b = "pright" -> IntT(a[1] - 2)                  \* sb(;2)
    [] b = "pmid" -> IntT(1 + a[1] + 3)                \* s3(1;;3)      a projection of s3::{x+y+z}: a monad
    [] OTHER -> "?"

\* what one application of the callable of entry e prescribes: log entries and result
RECURSIVE OverLog(_, _, _, _, _)
OverLog(id, c, acc, rest, out) ==       \* fold: acc f e1, ...
  IF rest = <<>> THEN <<out, acc, c>>
  ELSE OverLog(id, c + 1, Ret(id, c + 1), Tail(rest), Append(out, [id |-> id, args |-> <<acc, Head(rest)>>]))

Expected(m, e) ==
  LET s == m.store[e.n] c == m.cnt[s.id] IN
  CASE e.form \in {"direct", "at", "projl", "projr", "projm", "pyread"} ->
         [log |-> <<[id |-> s.id, args |-> e.args]>>, res |-> IF s.rz THEN "raised" ELSE Ret(s.id, c + 1), n |-> c + 1]
    [] e.form = "each" ->
         [log |-> [i \in 1..Len(e.args) |-> [id |-> s.id, args |-> <<e.args[i]>>]],
          res |-> ListT([i \in 1..Len(e.args) |-> Ret(s.id, c + i)]), n |-> c + Len(e.args)]
    [] e.form = "over" ->
         LET r == OverLog(s.id, c, e.args[1], Tail(e.args), <<>>) IN [log |-> r[1], res |-> r[2], n |-> r[3]]

LogArgs(l) == [i \in 1..Len(l) |-> [id |-> l[i].id, args |-> l[i].args]]
\* a call of the Klong function {pf(x)} (through the handle or as name(a)): pf is invoked exactly once with the argument
ViaPy(m, e) ==
  IF Len(e.log) = 0 THEN "CallableNotInvoked"
  ELSE IF Len(e.log) > 1 THEN "CallableInvokedMoreThanOnce"
  ELSE IF LogArgs(e.log) # <<[id |-> Pf, args |-> <<IntT(e.args[1])>>]>> THEN "WrongArguments"
  ELSE IF e.args[1] = 3 THEN (IF e.res = "raised" THEN "ok" ELSE "FailureOfTheCallableNotPropagated")
  ELSE IF e.res = Ret(Pf, m.cnt[Pf] + 1) THEN "ok" ELSE "ResultIsNotTheReturnValue"
Verdict(m, e) ==
  CASE e.op = "readdata" ->
         IF m.store[e.n].kind # "data" THEN "skip"
         ELSE IF e.obs = m.store[e.n].v THEN "ok" ELSE IF e.via = "python" THEN "PythonReadsBackOtherValue" ELSE "ProgramSeesOtherValue"
    [] e.op = "callpy" ->
         IF m.store[e.n].kind # "py" THEN "skip"
         ELSE LET x == Expected(m, e) IN
              IF Len(e.log) < Len(x.log) THEN "CallableNotInvoked"
              ELSE IF Len(e.log) > Len(x.log) THEN "CallableInvokedMoreThanOnce"
              ELSE IF LogArgs(e.log) # x.log THEN "WrongArguments"
              ELSE IF \E i \in 1..Len(e.log) : ~e.log[i].klok THEN "InterpreterNotPassed"
              ELSE IF e.res # x.res THEN "ResultIsNotTheReturnValue" ELSE "ok"
    [] e.op = "callwrap" ->
         LET n == m.wraps[e.w] IN
         IF n = "" THEN "skip" ELSE IF m.store[n].kind # "kg" THEN "skip"
         ELSE IF Len(e.args) # m.store[n].ar THEN (IF e.res = "rejected" THEN "ok" ELSE "WrongArgumentCountAccepted")
         ELSE IF e.res = "rejected" THEN "RightArgumentCountRejected"
         ELSE IF m.store[n].body = "viapy" THEN ViaPy(m, e)
         ELSE IF e.res = Body(m.store[n].body, e.args) THEN "ok" ELSE "WrapperResultDiffersFromKlongCall"
    [] e.op = "callkg" ->
         IF m.store[e.n].kind # "kg" \/ Len(e.args) # m.store[e.n].ar THEN "skip"
         ELSE IF m.store[e.n].body = "viapy" THEN ViaPy(m, e)
         ELSE IF e.res = Body(m.store[e.n].body, e.args) THEN "ok" ELSE "KlongCallWrongValue"
    [] OTHER -> "ok"

Apply(m, e) ==
  CASE e.op = "setdata" -> [m EXCEPT !.store[e.n] = [None EXCEPT !.kind = "data", !.v = e.v]]
    [] e.op = "setpy" -> [m EXCEPT !.store[e.n] = [None EXCEPT !.kind = "py", !.id = e.id, !.ar = e.ar, !.kl = e.kl, !.rz = e.rz]]
    [] e.op = "defkg" -> [m EXCEPT !.store[e.n] = [None EXCEPT !.kind = "kg", !.ar = e.ar, !.body = e.body]]
    [] e.op = "del" -> [m EXCEPT !.store[e.n] = None]
    [] e.op = "getwrap" -> [m EXCEPT !.wraps[e.w] = e.n]
    [] e.op = "callpy" /\ m.store[e.n].kind = "py" -> [m EXCEPT !.cnt[m.store[e.n].id] = Expected(m, e).n]
    [] e.op = "callwrap" /\ m.wraps[e.w] # "" /\ m.store[m.wraps[e.w]].kind = "kg" /\ m.store[m.wraps[e.w]].body = "viapy"
         /\ Len(e.args) = 1 -> [m EXCEPT !.cnt[Pf] = @ + 1]
    [] e.op = "callkg" /\ m.store[e.n].kind = "kg" /\ m.store[e.n].body = "viapy" /\ Len(e.args) = 1 -> [m EXCEPT !.cnt[Pf] = @ + 1]
    [] OTHER -> m

Step(m, e) == LET v == Verdict(m, e) m2 == Apply(m, e)
              IN IF m.bad = "ok" /\ v \notin {"ok", "skip"} THEN [m2 EXCEPT !.bad = v] ELSE m2
=============================================================================
