-------------------------------- MODULE PyGen --------------------------------
(* C09: generator of interop histories with the observations PyAbs prescribes. *)
EXTENDS Integers, Sequences, FiniteSets, TLC, Json
CONSTANTS Names, Slots, MaxId, MaxOps, ArgT,  \* ArgT: argument texts for direct applications
          IntArgs,                               \* integer arguments of handle calls and Klong calls
          Theme                                  \* "all" | "py" (data and Python callables) | "kg" (Klong functions and handles)
                                                 \* | "hd" (handle life cycle: define / handle / delete / call while deleted / redefine / call)
A == INSTANCE PyAbs
VARIABLES mon, hist, nid
Init == mon = A!MonInit(Names, Slots, MaxId) /\ hist = <<>> /\ nid = 0
Add(e) == mon' = A!Step(mon, e) /\ hist' = Append(hist, e)

Bodies == << <<0, "seven">>, <<1, "inc">>, <<1, "neg">>, <<1, "cnt">>, <<1, "enl">>, <<1, "viapy">>, <<2, "sub">>, <<2, "right">>, <<2, "pair">>,
             <<2, "negy">>, <<3, "sum3">>, <<3, "third">>, <<3, "xz">>, <<1, "pleft">>, <<1, "pright">>, <<1, "pmid">> >>
Kind(n) == mon.store[n].kind
Atoms == {t \in ArgT : t \notin {"[1 2]"}}
Tuples(k, S) == [1..k -> S]

LogOf(x, kl) == [i \in 1..Len(x.log) |-> [id |-> x.log[i].id, args |-> x.log[i].args, klok |-> TRUE]]
CallPy(n, form, args) ==
  LET e0 == [op |-> "callpy", n |-> n, form |-> form, args |-> args] x == A!Expected(mon, e0) IN
  Add([op |-> "callpy", n |-> n, form |-> form, args |-> args, log |-> LogOf(x, mon.store[n].kl), res |-> x.res])

Next ==
  /\ Len(hist) < MaxOps
  /\ \/ \E n \in Names, v \in ArgT : Theme # "kg" /\ Add([op |-> "setdata", n |-> n, v |-> v]) /\ UNCHANGED nid
     \/ \E n \in Names, ar \in 0..3, kl \in BOOLEAN, rz \in BOOLEAN, perm \in BOOLEAN :       \* perm: parameters declared (y, x) / (z, x, y)
          Theme \notin {"kg", "hd"} /\ nid < MaxId /\ nid' = nid + 1 /\ (perm => ar >= 2)
          /\ Add([op |-> "setpy", n |-> n, id |-> nid + 1, ar |-> ar, kl |-> kl, rz |-> rz, perm |-> perm])
     \/ \E n \in Names, i \in 1..Len(Bodies) : Theme # "py" /\ (Theme = "hd" => Bodies[i][2] \in {"inc", "right", "pleft"}) /\ Add([op |-> "defkg", n |-> n, ar |-> Bodies[i][1], body |-> Bodies[i][2]]) /\ UNCHANGED nid
     \/ \E n \in Names : Kind(n) # "none" /\ Add([op |-> "del", n |-> n]) /\ UNCHANGED nid
     \/ \E w \in Slots, n \in Names : Kind(n) = "kg" /\ Add([op |-> "getwrap", w |-> w, n |-> n]) /\ UNCHANGED nid
     \/ \E n \in Names, via \in {"python", "klong"} :
          Kind(n) = "data" /\ Add([op |-> "readdata", n |-> n, via |-> via, obs |-> mon.store[n].v]) /\ UNCHANGED nid
     \/ \E n \in Names : Kind(n) = "py" /\ UNCHANGED nid /\
          LET ar == mon.store[n].ar IN
          \/ \E a \in Tuples(ar, ArgT) : CallPy(n, "direct", a) \/ CallPy(n, "pyread", a)
          \/ ar \in {1, 2} /\ \E a \in Tuples(ar, Atoms) : CallPy(n, "at", a)
          \/ ar = 2 /\ \E a \in Tuples(2, ArgT) : CallPy(n, "projl", a) \/ CallPy(n, "projr", a)
          \/ ar = 3 /\ \E a \in Tuples(3, ArgT) : CallPy(n, "projm", a)
          \/ ar = 1 /\ ~mon.store[n].rz /\ \E a \in Tuples(3, {"1", "2", "3"}) : CallPy(n, "each", a)
          \/ ar = 2 /\ ~mon.store[n].rz /\ \E k \in {2, 3} : \E a \in Tuples(k, {"1", "2", "3"}) : CallPy(n, "over", a)
     \* a handle may also be called while its name is deleted: the property prescribes nothing for that call (the monitor skips
     \* it), but it must not change what the handle does after the name is defined again
     \/ \E w \in Slots, k \in 0..3 : \E a \in Tuples(k, IntArgs) :
          /\ mon.wraps[w] # "" /\ Kind(mon.wraps[w]) \in {"kg", "none"} /\ UNCHANGED nid
          /\ (Theme = "hd" => k \in {1, 2})
          /\ LET st == mon.store[mon.wraps[w]]
                 via == st.body = "viapy" /\ k = 1 IN
             Add([op |-> "callwrap", w |-> w, args |-> a,
                  res |-> IF k # st.ar THEN "rejected" ELSE IF via THEN (IF a[1] = 3 THEN "raised" ELSE A!Ret(A!Pf, mon.cnt[A!Pf] + 1))
                          ELSE A!Body(st.body, a),
                  log |-> IF via THEN <<[id |-> A!Pf, args |-> <<A!IntT(a[1])>>, klok |-> TRUE]>> ELSE <<>>])
     \/ \E n \in Names : Kind(n) = "kg" /\ Theme # "hd" /\ UNCHANGED nid /\
          \E a \in Tuples(mon.store[n].ar, IntArgs) :
             LET via == mon.store[n].body = "viapy" IN
             Add([op |-> "callkg", n |-> n, args |-> a,
                  res |-> IF via THEN (IF a[1] = 3 THEN "raised" ELSE A!Ret(A!Pf, mon.cnt[A!Pf] + 1)) ELSE A!Body(mon.store[n].body, a),
                  log |-> IF via THEN <<[id |-> A!Pf, args |-> <<A!IntT(a[1])>>, klok |-> TRUE]>> ELSE <<>>])
Good == mon.bad = "ok"
Emit == Len(hist) = MaxOps => PrintT(ToJson(hist))
=============================================================================
