------------------------------- MODULE RtTrace -------------------------------
EXTENDS RtAbs, TLC, Json, IOUtils
Obs == JsonDeserialize(IOEnv.TRACE_FILE)
VARIABLE i
Init == i = 0
Next == /\ i < Len(Obs) /\ i' = i + 1 /\ PrintT(ToJson([tid |-> Obs[i + 1].tid, bad |-> Verdict(Obs[i + 1])]))
=============================================================================
