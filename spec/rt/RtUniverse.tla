------------------------------ MODULE RtUniverse ------------------------------
(* C11: the closed universe of values whose readable form must read back (one source of truth for the harness). *)
EXTENDS RtAbs, TLC, Json
CONSTANT Tier

\* code points: " 34  blank 32  newline 10  tab 9  [ 91  ] 93  : 58  ; 59  { 123  } 125  \ 92  ' 39  0 48  - 45  a 97 ...
Ints == << I("0"), I("1"), I("-1"), I("42"), I("-7"), I("1000000"), I("2147483647"), I("-2147483648"), I("4294967296"),
           I("9007199254740993"), I("9223372036854775807"), I("-9223372036854775808") >>
Reals == << R("0.5"), R("-2.5"), R("0.1"), R("3.14159"), R("1e+300"), R("1.5e-07"), R("-1e-05"), R("123456789.125"), R("1e+16"),
            R("2.0"), R("-0.0"), R("1.7976931348623157e+308"), R("5e-324") >>
Chars == << C(97), C(34), C(32), C(10), C(9), C(91), C(93), C(48), C(58), C(59), C(92), C(39), C(123), C(45) >>
Strs == << S(<<>>), S(<<97>>), S(<<97, 32, 98>>), S(<<113, 34, 113>>), S(<<34>>), S(<<34, 34>>), S(<<108, 10, 98>>), S(<<91>>), S(<<93>>),
           S(<<91, 49, 32, 50, 93>>), S(<<58, 34, 99, 34>>), S(<<48, 99, 120>>), S(<<58, 123>>), S(<<125>>), S(<<45, 49>>),
           S(<<97, 59, 98>>), S(<<92>>), S(<<120, 39, 121>>), S(<<32>>), S(<<9, 97>>), S(<<97, 32>>) >>
Syms == << Y(<<120>>), Y(<<102, 111, 111>>), Y(<<97, 49>>), Y(<<75, 76>>) >>
Atoms == Ints \o Reals \o Chars \o Strs \o Syms
NA == Len(Atoms)
Keys == << I("1"), I("-7"), R("0.5"), C(97), C(34), S(<<97>>), S(<<113, 34, 113>>), S(<<>>), Y(<<120>>) >>

Single == [k \in 1..NA |-> L(<<Atoms[k]>>)]
PairsWith(j) == [k \in 1..NA |-> L(<<Atoms[k], Atoms[j]>>)]
Trailing == [k \in 1..NA |-> L(<<I("1"), Atoms[k]>>)]                       \* the atom as LAST element
Deep2 == [k \in 1..NA |-> L(<<L(<<Atoms[k]>>), Atoms[k]>>)]
Deep3 == [k \in 1..NA |-> L(<<L(<<L(<<Atoms[k]>>)>>), L(<<>>)>>)]
Dict1 == [k \in 1..NA |-> D(<< <<Keys[((k - 1) % Len(Keys)) + 1], Atoms[k]>> >>)]
Dict2 == [k \in 1..Len(Keys) |-> D(<< <<Keys[k], L(<<I("1"), S(<<97>>)>>)>>, <<I("99"), Keys[k]>> >>)]
DictIn == [k \in 1..Len(Keys) |-> L(<<D(<< <<Keys[k], I("1")>> >>), I("2")>>)]
\* the same sub-dictionary / sub-list occurring twice (the harness builds these also with ONE shared object: dictionaries are references)
E1 == D(<< <<I("1"), I("2")>> >>)
Shared == << D(<< <<S(<<97>>), E1>>, <<S(<<98>>), E1>> >>), L(<<E1, E1>>), D(<< <<I("1"), L(<<E1, I("5")>>)>>, <<I("2"), E1>> >>),
             D(<< <<S(<<97>>), L(<<I("1"), I("2")>>)>>, <<S(<<98>>), L(<<I("1"), I("2")>>)>> >>), L(<<L(<<E1>>), L(<<E1>>)>>) >>
DictDeep == << D(<< <<I("1"), D(<< <<S(<<97>>), L(<<I("1"), I("2")>>)>> >>)>> >>), D(<<>>), L(<<D(<<>>)>>) >>
Misc == << L(<<>>), L(<<L(<<>>)>>), L(Atoms), L(<<I("1"), I("2"), I("3")>>), L(<<R("0.5"), R("1.5e-07")>>), L(<<I("1"), R("2.5")>>),
           L(<<L(<<I("1"), I("2")>>), L(<<I("3"), I("4")>>)>>), L(<<S(<<97>>), S(<<98, 99>>)>>), L(<<C(97), C(98)>>),
           L(<<Y(<<120>>), Y(<<121>>)>>), L(<<I("1"), L(<<I("2"), L(<<I("3"), L(<<>>)>>)>>)>>) >>

Quick == Shared \o Atoms \o Single \o Trailing \o Deep2 \o Deep3 \o Dict1 \o Dict2 \o DictIn \o DictDeep \o Misc \o PairsWith(1) \o PairsWith(NA - 30)
RECURSIVE AllPairs(_)
AllPairs(j) == IF j = 0 THEN <<>> ELSE AllPairs(j - 1) \o PairsWith(j)
Univ == IF Tier = "quick" THEN Quick ELSE Quick \o AllPairs(NA)

VARIABLE i
Init == i = 1
Next == i <= Len(Univ) /\ i' = i + 1
NS == Len(Shared)
Emit == i <= Len(Univ) => PrintT(ToJson([id |-> i, v |-> Univ[i], atom |-> (i > NS /\ i <= NS + NA), shared |-> (i <= NS)]))
=============================================================================
