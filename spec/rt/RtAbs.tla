-------------------------------- MODULE RtAbs --------------------------------
(***************************************************************************)
(* C11 - readable output reads back to the same value.                      *)
(* Values of the round-trip universe are tagged records whose payloads are  *)
(* never compared across tags:                                              *)
(*   [t |-> "i", v |-> "-12"]           integer, decimal text (any size)     *)
(*   [t |-> "r", v |-> "1.5e-07"]       real, shortest decimal text          *)
(*   [t |-> "c", v |-> 34]              character (code point)               *)
(*   [t |-> "s", v |-> <<104, 105>>]    string                               *)
(*   [t |-> "y", v |-> <<120>>]         symbol                               *)
(*   [t |-> "l", v |-> <<...>>]         list                                 *)
(*   [t |-> "d", v |-> << <<k, v>>, ... >>]  dictionary                      *)
(* anything else the implementation hands back ([t |-> "x", v |-> text])    *)
(* matches nothing.                                                         *)
(***************************************************************************)
EXTENDS Integers, Sequences, FiniteSets

I(s) == [t |-> "i", v |-> s]
R(s) == [t |-> "r", v |-> s]
C(c) == [t |-> "c", v |-> c]
S(q) == [t |-> "s", v |-> q]
Y(q) == [t |-> "y", v |-> q]
L(q) == [t |-> "l", v |-> q]
D(q) == [t |-> "d", v |-> q]

RECURSIVE Same(_, _)
Same(a, b) ==
  /\ a.t = b.t
  /\ CASE a.t \in {"i", "r", "c", "s", "y"} -> a.v = b.v
       [] a.t = "l" -> Len(a.v) = Len(b.v) /\ \A k \in 1..Len(a.v) : Same(a.v[k], b.v[k])
       [] a.t = "d" -> /\ Len(a.v) = Len(b.v)
                       /\ \A k \in 1..Len(a.v) : \E j \in 1..Len(b.v) : Same(a.v[k][1], b.v[j][1]) /\ Same(a.v[k][2], b.v[j][2])
       [] OTHER -> FALSE

\* one observation: the value, what reading its written form gave back, whether writing that again gave the same text
RoundTrip(o) == IF ~Same(o.v, o.back) THEN "ReadBackDiffers" ELSE IF ~o.sametext THEN "RewrittenDifferently" ELSE "ok"
\* x:$$x
FormFormat(o) == IF Same(o.v, o.back) THEN "ok" ELSE "FormDoesNotInvertFormat"
Verdict(o) == IF o.kind = "form" THEN FormFormat(o) ELSE RoundTrip(o)
=============================================================================
