"""MANIFEST.setup_cmd: offline build/sanity of the framework: tools present, every TLA+ module parses."""
import glob
import os
import subprocess
import sys

import common


def main():
    ok = True
    for tool in ("java",):
        if subprocess.run(["which", tool], stdout=subprocess.DEVNULL).returncode != 0:
            print(f"missing tool {tool}")
            ok = False
    if not os.path.exists(common.TLA_JAR):
        print("missing tla2tools.jar")
        ok = False
    d = common.subscratch("sany")
    mods = sorted(glob.glob(os.path.join(common.SPEC, "**", "*.tla"), recursive=True))
    for m in mods:
        subprocess.run(["cp", m, d])
    for m in mods:
        # modules reading IOEnv / generated MC modules are still parsed (SANY does not evaluate)
        good, out = common.sany(os.path.join(d, os.path.basename(m)))
        print(("ok   " if good else "FAIL ") + os.path.relpath(m, common.VERIF))
        if not good:
            print(out[-1500:])
            ok = False
    try:
        common.use_repo()
    except Exception as e:
        print(f"cannot import klongpy from {common.REPO}: {e}")
        ok = False
    os.makedirs(os.path.join(common.VERIF, "evidence"), exist_ok=True)
    return 0 if ok else 2


if __name__ == "__main__":
    sys.exit(main())
