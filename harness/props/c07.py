"""C07 - gradient and Jacobian computation is observationally pure.

spec/grad/GradPurity.tla  the probe protocol of the gradient operators (bind the named parameter, call, restore in finally) with the
                          user's function failing at its k-th evaluation; invariant Restored; emits every scenario
spec/kg/FrameAbs.tla      the judgement of a recorded execution: every variable as before, context as deep as before, later
                          programs as in the twin (spec/kg/FrameTrace.tla folds the recorded snapshots through it)

TLC checks the protocol model and emits the scenarios gradient form x fault position k x fault kind (raise, non-scalar result,
unknown name, none).  Each is replayed under both backends: the differentiated function consults a Python probe that makes its
k-th evaluation fail; all globals (value, Python type, dtype, gradient tracking) are snapshotted before and after the gradient
expression and the function is evaluated before and after.  TLC judges the recorded snapshots with FrameAbs.
"""
import json
import os

import common
from common import Evidence, Verdicts, run_tlc, stage_spec, MachineryError

PROP = "C07"
FORMS = [  # name, named, nparams, probes per parameter (numeric differentiation, upper bound), gradient source, function called before/after
    ("f:>p", False, 1, 4, "f:>[1.5 2.5]", "f(a)"),
    ("f:>a", False, 1, 4, "f:>a", "f(a)"),
    ("p∇f", False, 1, 4, "[1.5 2.5]∇f", "f(a)"),
    ("a∇f", True, 1, 4, "a∇f", "f(a)"),
    ("p∂g", False, 1, 5, "[1.5 2.5]∂g", "g(a)"),
    ("a∂g", False, 1, 5, "a∂g", "g(a)"),
    ("loss:>[w b]", True, 2, 4, "loss:>[w b]", "loss()"),
    ("loss:>[b w]", True, 2, 4, "loss:>[b w]", "loss()"),
    ("loss:>[w b w]", True, 3, 4, "loss:>[w b w]", "loss()"),
    ("loss:>[w w]", True, 2, 4, "loss:>[w w]", "loss()"),
    ("[w b]∂gn", True, 2, 5, "[w b]∂gn", "gn()"),
    ("[w w]∂gn", True, 2, 5, "[w w]∂gn", "gn()"),
    (".jacobian", False, 1, 5, ".jacobian(g;a)", "g(a)"),
    # a parameter list that names a FUNCTION: the operator fails (or not), the function must stay what it was
    ("[w hf]∂gn", True, 2, 5, "[w hf]∂gn", "hf(3)"),
    ("loss:>[w hf]", True, 2, 4, "loss:>[w hf]", "hf(3)"),
]
FAULT = {"raise": "boom(0)", "nonscalar": "[1.0 2.0 3.0]", "unknown": "nofn(1)", "none": "0"}
SCALAR_FORMS = {"f:>p", "f:>a", "p∇f", "a∇f", "loss:>[w b]", "loss:>[b w]", "loss:>[w b w]", "loss:>[w w]"}


class Probe:
    def __init__(self):
        self.k = 0
        self.n = 0

    def __call__(self, x):
        self.n += 1
        return 1 if self.k and self.n == self.k else 0


def boom(x):
    raise ValueError("scripted failure of the differentiated function")


def describe(v):
    import numpy as np
    tname = type(v).__name__
    if hasattr(v, "detach"):                                    # torch tensor
        return f"tensor:{v.dtype}:grad={bool(v.requires_grad)}:{v.detach().cpu().numpy().tolist()}"
    if isinstance(v, np.ndarray):
        return f"ndarray:{v.dtype}:{v.tolist()}"
    if isinstance(v, (int, float, np.integer, np.floating)):
        return f"{tname}:{float(v)!r}"
    if type(v).__name__ in ("KGFn", "KGCall", "KGLambda", "KGFnWrapper"):
        return f"function:{type(v).__name__}:arity={getattr(v, 'arity', '?')}"
    return f"{tname}:{v!r}"[:200]


def snapshot(k):
    snap = {}
    for d in reversed(list(k._context._context)[:-1]):
        try:
            items = list(d.items())
        except Exception:   # noqa
            continue
        for name, v in items:
            n = str(name)
            if n.startswith("."):
                continue
            snap[n] = describe(v)
    return [{"n": n, "v": v} for n, v in sorted(snap.items())], len(k._context._context)


def setup(backend, kind, origin="literal"):
    from klongpy import KlongInterpreter
    k = KlongInterpreter(backend=backend) if backend == "numpy" else KlongInterpreter(backend="torch", device="cpu")
    pr = Probe()
    k["pr"] = pr
    k["boom"] = boom
    tail = f":[pr(0);{FAULT[kind]};0]"
    for src in ["hf::{x+1}", "w::[1.0 2.0]", "b::0.5", "a::[1.5 2.5]", "u::[7 8 9]", "s::3",
                f"f::{{(+/x*x)+{tail}}}", f"g::{{(x*x)+{tail}}}", f"loss::{{(+/w*w)+(b*b)+{tail}}}", f"gn::{{(w*b)+{tail}}}"]:
        k(src)
    if origin == "computed":
        # the variables hold the results of an earlier descent step (under torch: float64 tensors that share storage with the
        # arrays numeric differentiation works on)
        for src in ["f0::{+/x*x}", "a::a-0.1*a∇f0", "w::w-0.1*w∇f0"]:
            k(src)
    return k, pr


def text(v):
    try:
        return describe(v)
    except Exception:   # noqa
        return type(v).__name__


def run(tier, seed):
    import logging
    import warnings
    logging.disable(logging.CRITICAL)
    warnings.filterwarnings("ignore")
    ev = Evidence(PROP, tier, seed)
    vd = Verdicts(PROP, ev)
    d = stage_spec("grad/GradPurity.tla", "kg/FrameAbs.tla", "kg/FrameTrace.tla")
    with open(os.path.join(d, "MCPurity.tla"), "w") as f:
        f.write("---- MODULE MCPurity ----\nEXTENDS GradPurity\nMCForms == {%s}\nMCKinds == {\"none\", \"raise\", \"nonscalar\", \"unknown\"}\n====\n" % ", ".join(
            '[name |-> "%s", named |-> %s, nparams |-> %d, probes |-> %d]' % (n, "TRUE" if nm else "FALSE", np_, pb) for n, nm, np_, pb, _, _ in FORMS))
    cfg = os.path.join(d, "p.cfg")
    with open(cfg, "w") as f:
        f.write("INIT Init\nNEXT Next\nCONSTANTS\n  Forms <- MCForms\n  Kinds <- MCKinds\nINVARIANT Restored\nINVARIANT Emit\nCHECK_DEADLOCK FALSE\n")
    r = run_tlc(os.path.join(d, "MCPurity.tla"), cfg, workers=1, coverage=True, timeout=3000)
    ev.add_tlc("GradPurity.tla: probe protocol with a fault at every evaluation, invariant Restored; scenarios emitted", r)
    if r.violated:
        vd.violation({"what": f"design-level: GradPurity.tla violates {r.violated}", "counterexample": r.cex[:4000], "clause": "design", "form": "-", "backend": "-", "kind": "-", "k": 0})
    # the same protocol with an UNBOUNDED number of probes per parameter: Apalache proves that IndInv (which contains Restored) is
    # inductive - Init => IndInv and IndInv /\ Next => IndInv' - for every PR in 1..1000 (spec/grad/GradPurityInd.tla)
    import shutil
    import subprocess
    import tempfile
    apa = shutil.which("apalache-mc")
    if apa is None:
        raise MachineryError("apalache-mc is not on PATH")
    adir = tempfile.mkdtemp(prefix="apa-", dir=common.scratch())
    shutil.copy(os.path.join(common.VERIF, "spec", "grad", "GradPurityInd.tla"), adir)
    proved = []
    for init, length in (("Init", 0), ("IndInit", 1)):
        pr = subprocess.run([apa, "check", "--cinit=ConstInit", f"--init={init}", "--inv=IndInv", f"--length={length}",
                             f"--out-dir={os.path.join(adir, 'out')}", "GradPurityInd.tla"], cwd=adir, stdout=subprocess.PIPE,
                            stderr=subprocess.STDOUT, text=True, timeout=900)
        ok = "EXITCODE: OK" in pr.stdout
        proved.append(ok)
        if not ok and "EXITCODE: ERROR (12)" not in pr.stdout:
            raise MachineryError(f"apalache-mc failed: {pr.stdout[-600:]}")
    ev.cov["apalache_inductive_invariant"] = {"module": "GradPurityInd.tla", "init_implies_inv": proved[0], "inv_is_inductive": proved[1],
                                              "probes_per_parameter": "1..1000", "parameters": 2}
    if not all(proved):
        vd.violation({"what": "design-level: Apalache could not establish the inductive invariant of GradPurityInd.tla", "clause": "design",
                      "form": "-", "backend": "-", "kind": "-", "k": 0})
    shutil.rmtree(adir, ignore_errors=True)
    scen = [p for p in r.prints if isinstance(p, dict) and "form" in p]
    if len(scen) < 100:
        raise MachineryError(f"only {len(scen)} scenarios emitted")
    common.use_repo()
    src_of = {n: (g, call) for n, _, _, _, g, call in FORMS}
    traces, meta = [], {}
    fired = 0
    for sc in scen:
        if sc["kind"] == "nonscalar" and sc["form"] not in SCALAR_FORMS:
            continue                                  # a vector-valued function may return any vector
        for backend in ("numpy", "torch"):
            k, pr = setup(backend, sc["kind"], sc["origin"])
            gsrc, call = src_of[sc["form"]]
            pr.k, pr.n = 0, 0
            try:
                before = text(k(call))
            except BaseException as ex:   # noqa
                before = "raised " + type(ex).__name__
            pre, dpre = snapshot(k)
            pr.k, pr.n = sc["k"], 0
            try:
                res = text(k(gsrc))
                failed = False
            except BaseException as ex:   # noqa
                res = f"raised {type(ex).__name__}: {str(ex)[:80]}"
                failed = True
            evals = pr.n
            fired += bool(sc["k"] and evals >= sc["k"])
            post, dpost = snapshot(k)
            pr.k, pr.n = 0, 0
            try:
                after = text(k(call))
            except BaseException as ex:   # noqa
                after = "raised " + type(ex).__name__
            tid = len(traces)
            traces.append({"tid": tid, "pre": pre, "post": post, "depth_pre": dpre, "depth_post": dpost, "assigned": [],
                           "hidden": ["x", "y", "z"], "follow": after, "twin": before})
            meta[tid] = (sc, backend, gsrc, res, failed, evals)
    tf = os.path.join(d, "frames.json")
    with open(tf, "w") as f:
        json.dump(traces, f)
    cfgt = os.path.join(d, "t.cfg")
    with open(cfgt, "w") as f:
        f.write("INIT Init\nNEXT Next\nCHECK_DEADLOCK FALSE\n")
    rt = run_tlc(os.path.join(d, "FrameTrace.tla"), cfgt, workers=1, extra_env={"TRACE_FILE": tf}, timeout=3000)
    ev.add_tlc("FrameTrace.tla (recorded snapshots judged with FrameAbs.tla)", rt)
    verdicts = {v["tid"]: v["bad"] for v in rt.prints if isinstance(v, dict) and "tid" in v}
    if len(verdicts) != len(traces):
        raise MachineryError("frame validation incomplete")
    clusters = {}
    for tid, bad in verdicts.items():
        if bad == "ok":
            continue
        sc, backend, gsrc, res, failed, evals = meta[tid]
        t = traces[tid]
        changed = [(p["n"], p["v"], q["v"]) for p in t["pre"] for q in t["post"] if p["n"] == q["n"] and p["v"] != q["v"]]
        case = {"clause": bad, "form": sc["form"], "backend": backend, "kind": sc["kind"], "k": sc["k"], "origin": sc["origin"],
                "what": f"{gsrc} under {backend}{' after a descent step a::a-0.1*a∇f0;w::w-0.1*w∇f0' if sc['origin'] == 'computed' else ''}, the function fails at evaluation {sc['k']} ({sc['kind']}; {evals} evaluations made): {bad}: "
                        f"result {res[:80]}; changed variables {changed[:3]}; function before {t['twin'][:60]} after {t['follow'][:60]}"}
        clusters.setdefault((bad, sc["form"], backend, sc["kind"]), []).append(case)
    for key, items in sorted(clusters.items(), key=lambda kv: str(kv[0])):
        items.sort(key=lambda c_: c_["k"])
        case = dict(items[0])
        case["cluster_size"] = len(items)
        case["fault_positions"] = sorted({c_["k"] for c_ in items})
        vd.violation(case, matcher=matcher)
    ev.cov["evaluations"] = len(traces)
    ev.cov["traces_validated_against_impl"] = len(traces)
    ev.cov["distinct_nontrivial"] = fired
    ev.cov["scenarios"] = len(scen)
    ev.cov["scenarios_whose_fault_fired"] = fired
    ev.cov["rule"] = ("every scenario of GradPurity.tla: 15 gradient forms (point, variable and symbol points; Jacobians; multi-parameter with "
                      "distinct, reordered and repeated symbols) x fault position k = 0..8 x fault kind (raise, non-scalar result, unknown "
                      "name) x origin of the variables' values (literal, result of an earlier descent step), replayed under numpy and torch; non-trivial = the k-th evaluation was reached and failed")
    ev.sample({"scenario": meta[0][0], "backend": meta[0][1], "pre": traces[0]["pre"]})
    ev.cov["checker_cmd"] = "tlc GradPurity.tla ; gradient forms with a failing probe under both backends ; tlc FrameTrace.tla"
    ev.assumptions += ["a variable's observable state = value, Python type, dtype and gradient tracking flag",
                       "fault positions beyond the number of evaluations a backend makes (autograd evaluates once) do not fire"]
    return vd.finish()


def matcher(f, case):
    m = f.get("match", {})
    for key in ("clause", "form", "backend", "kind"):
        if key + "s" in m and case.get(key) not in m[key + "s"]:
            return False
    return True


def replay(path):
    with open(path) as f:
        case = json.load(f)["case"]
    print(json.dumps(case, indent=1)[:3000])
    return 0
