"""C03 - function application, projection, locals and conditionals follow substitution.

spec/kg/KgEval.tla      big-step evaluator: the value of a body under substitution of x, y, z (oracle, evaluated by TLC)
spec/kg/FrameAbs.tla    frame discipline as a judgement over recorded pre/post snapshots (FrameTrace.tla)

(i)   bodies from a closed grammar over x y z, literals and two globals x argument tuples: TLC computes the value of the
      substituted body; the implementation must return it for EVERY call form (direct, inline lambda, through a variable,
      through @, as the verb of an adverb, recursively through .f).
(ii)  all projection patterns of arity 2 and 3 and all orders of filling them, each step through a variable.
(iii) conditionals over every truth class with a counter in each branch (only the selected branch may run).
(iv)  fault sequences: a call of an undefined function placed at every sub-expression position of three nested calls with
      declared locals; snapshots before/after, context depth and a follow-up program (vs. a twin interpreter) are judged by
      TLC against FrameAbs.
"""
import itertools
import json
import os
import random

import common
import canon
import kgeval
from kgeval import lit, var, I, R, L, S
from common import Evidence, Verdicts, run_tlc, stage_spec, MachineryError

PROP = "C03"
G1, G2 = I(10), L(I(4), I(5), I(6))
GLOBALS = {"g1": G1, "g2": G2}
ARGVALS = [I(3), I(-2), L(I(1), I(2), I(3)), L(I(5), I(6), I(7)), R(5, 2)]


def bodies(arity, rnd, n_deep):
    leaves = [var(n) for n in ["x", "y", "z"][:arity]] + [lit(I(1)), lit(I(2)), lit(L(I(1), I(2), I(3))), var("g1"), var("g2")]
    dops, mops = ["+", "-", "*", ","], ["-", "#"]
    d1 = [{"k": "dy", "op": o, "a": a, "b": b} for o in dops for a in leaves for b in leaves] + \
         [{"k": "mo", "op": o, "a": a} for o in mops for a in leaves]
    # every parameter must occur (the arity of a Klong function is determined by the parameters it mentions)
    need = set(["x", "y", "z"][:arity])
    out = [b for b in leaves + d1 if kgeval.vars_of(b) & {"x", "y", "z"} == need]
    deep = []
    for _ in range(n_deep * 30):
        o = rnd.choice(dops)
        a, b = rnd.choice(d1 + leaves), rnd.choice(d1 + leaves)
        e = {"k": "dy", "op": o, "a": a, "b": b}
        if kgeval.vars_of(e) & {"x", "y", "z"} == need:
            deep.append(e)
        if len(deep) >= n_deep:
            break
    return out + deep


def call_forms(body_src, args_src, arity, atoms_only):
    a = ";".join(args_src)
    forms = {"direct": f"f::{{{body_src}}};f({a})",
             "inline": f"{{{body_src}}}({a})",
             "variable": f"f::{{{body_src}}};g::f;g({a})"}
    if arity >= 1:
        # dynamic scope: a helper called from f assigns the name t, which f declares as a local and which is ALSO a global (gt is
        # an alias of the global's value): the assignment reaches f's local - the innermost t on the call chain - and the global
        # keeps its value (checked after the call: the form name ends in "+global")
        forms["helper-assigns-callers-local+global"] = f"t::100;st::{{t::x}};f::{{[t];t::0;st({body_src});t}};f({a})"
        forms["helper-two-deep-assigns-callers-local+global"] = f"t::100;st::{{t::x}};mid::{{st(x)}};f::{{[t];t::0;mid({body_src});t}};f({a})"
    if arity < 3:
        # nested function literals mention parameters of their OWN (here y and z, which the outer function does not have): the outer
        # function takes the parameters its own body mentions
        forms["helper-local"] = f"f::{{[h];h::{{:[1;y;x]}};h(0;{body_src})}};f({a})"
        forms["helper-inline"] = f"f::{{{{:[1;z;x,y]}}(0;0;{body_src})}};f({a})"
        forms["helper-defined-inside"] = f"f::{{h::{{:[1;z;x,y]}};{body_src}}};f({a})"
    if arity == 0:
        # a nilad: no parameter to bind, so nothing but the frame itself carries .f
        forms["nested"] = f"f::{{{body_src}}};w::{{x;f()}};w(7)"
        forms["nested-local"] = f"f::{{{body_src}}};w::{{[t];t::f;t()}};w(7)"
        forms["recursive"] = f"n::0;r::{{n::n+1;:[n<3;.f();{body_src}]}};r()"
        forms["recursive-nested"] = f"n::0;r::{{n::n+1;:[n<3;.f();{body_src}]}};w::{{x;r()}};w(7)"
        forms["recursive-nested-arg"] = f"n::0;r::{{n::n+1;:[n<3;.f();{body_src}]}};w::{{x+r()}};(w(0))"
        return forms
    if arity >= 2:
        forms["at"] = f"f::{{{body_src}}};f@[{' '.join(args_src)}]"
    elif atoms_only:
        forms["at"] = f"f::{{{body_src}}};f@{args_src[0]}"
    if arity == 2:
        forms["over"] = f"f::{{{body_src}}};f/[{' '.join(args_src)}]"
    if arity == 1:
        forms["each"] = f"f::{{{body_src}}};*f'[{args_src[0]}]" if not atoms_only else f"f::{{{body_src}}};*f',{args_src[0]}"
        forms["recursive"] = f"r::{{:[y>0;.f(x;y-1);{body_src}]}};r({args_src[0]};2)"
        # recursion through .f with a declared local: every activation has its own t (the outermost still sees t = 2 afterwards)
        forms["recursive-local"] = f"r::{{[t];t::y;:[y>0;.f(x;y-1);0];:[t=2;{body_src};:inner]}};r({args_src[0]};2)"
        # 150 activations at once (beyond any small bound on the number of live frames); the globals are still there afterwards
        forms["recursive-150-deep+global"] = f"t::100;r::{{:[y>0;.f(x;y-1);{body_src}]}};r({args_src[0]};150)"
        forms["recursive-local-by-name"] = f"r::{{[t];t::y;:[y>0;r(x;y-1);0];:[t=2;{body_src};:inner]}};r({args_src[0]};2)"
    return forms


def projection_programs(body_src, args_src, arity):
    """All ways of filling the arguments in two or three steps (each step through a variable)."""
    progs = []
    idx = list(range(arity))
    for k in range(1, arity):
        for first in itertools.combinations(idx, k):
            rest = [i for i in idx if i not in first]
            p1 = ";".join(args_src[i] if i in first else "" for i in idx)
            # second step fills all remaining at once
            p2 = ";".join(args_src[i] for i in rest)
            progs.append((f"fill {first} then {tuple(rest)}", f"f::{{{body_src}}};p::f({p1});p({p2})"))
            if len(rest) == 2:
                for second in rest:
                    third = [i for i in rest if i != second][0]
                    q2 = ";".join(args_src[i] if i == second else "" for i in rest)
                    progs.append((f"fill {first} then ({second},) then ({third},)",
                                  f"f::{{{body_src}}};p::f({p1});q::p({q2});q({args_src[third]})"))
    return progs


FAULT_BODIES = {
    # three nested calls with declared locals; @F marks where the failing call is placed
    "h": "{{[a];a::x*2;{h1};{h2}}}",
    "m": "{{[b];b::{m0}h({m1})+1;{m2}}}",
    "o": "{{[c];c::{o0}m({o1});{o2}}}",
}
FAULT_SITES = {
    "none": {},
    "h-first-stmt-after-local": {"h1": "nofn(a)", "h2": "a+1"},
    "h-operand": {"h1": "g1::g1+1", "h2": "a+nofn(1)"},
    "h-last": {"h1": "a", "h2": "nofn(1)"},
    "h-after-global-assign": {"h1": "g1::g1+100", "h2": "nofn(a)+a"},
    "m-arg-of-h": {"m1": "nofn(x)"},
    "m-before-h": {"m0": "nofn(1)+"},
    "m-after-h": {"m2": "nofn(b)"},
    "m-after-h-operand": {"m2": "b*nofn(2)"},
    "o-arg-of-m": {"o1": "nofn(x)"},
    "o-before-m": {"o0": "nofn(2)-"},
    "o-after-m": {"o2": "c,nofn(y)"},
    "o-after-m-with-assign": {"o2": "g2::c,g2;nofn(y)"},
    "fault-inside-each": {"h1": "a", "h2": "{nofn(x)}'[1 2 3]"},
    "error-in-primitive": {"h1": "a", "h2": "a+\"str\"@99"},
    # the failing call is a Python-implemented function: one registered by the host, and a system function
    "h-python-callable-raises": {"h1": "a", "h2": "a+pyfail(0)"},
    "h-python-callable-raises-first": {"h1": "pyfail(0)", "h2": "a"},
    "m-python-callable-raises-as-arg": {"m1": "pyfail(0)"},
    "o-python-callable-raises-after-m": {"o2": "c,pyfail(0)"},
    "h-system-function-raises": {"h1": "a", "h2": ".rs(0)"},
    "m-system-function-raises": {"m2": "b+.rs(0)"},
    "h-python-callable-raises-inside-each": {"h1": "a", "h2": "pyfail'[1 0 2]"},
}
DEFAULTS = {"h1": "a", "h2": "a+1", "m0": "", "m1": "x", "m2": "b", "o0": "", "o1": "x", "o2": "c,y"}


def pyfail(x):
    if x == 0:
        raise ValueError("pyfail(0)")
    return x


def snapshot(k):
    ctx = k._context
    snap = {}
    for d in reversed(list(ctx._context)):
        for name, v in (d.items() if hasattr(d, "items") else []):
            n = str(name)
            if n.startswith("."):
                continue
            c = canon.canon(v)
            if c["t"] == "y" and "".join(chr(q) for q in c["v"]) == n:
                continue            # a name bound to its own symbol = evaluated while unbound, not an assignment
            snap[n] = json.dumps(c, sort_keys=True)
    return [{"n": n, "v": v} for n, v in sorted(snap.items())], len(ctx._context)


def run(tier, seed):
    import logging
    logging.disable(logging.CRITICAL)
    ev = Evidence(PROP, tier, seed)
    vd = Verdicts(PROP, ev)
    thorough = tier == "thorough"
    rnd = random.Random(seed)
    common.use_repo()
    from klongpy import KlongInterpreter

    def fresh():
        k = KlongInterpreter()
        k("g1::10")
        k("g2::[4 5 6]")
        k["pyfail"] = pyfail
        return k

    # (i) + (ii): substitution ----------------------------------------------------------------------------
    cases, meta = [], {}
    for arity in (0, 1, 2, 3):
        bl = bodies(arity, rnd, 40 if not thorough else 400)
        tuples = list(itertools.product(ARGVALS, repeat=arity))
        rnd.shuffle(tuples)
        per_body = 3 if not thorough else 8
        for b in bl:
            for args in (tuples[:per_body] if arity > 1 else [(a,) for a in ARGVALS] if arity == 1 else [()]):
                cid = len(cases) + 1
                env = dict(GLOBALS)
                env.update({n: a for n, a in zip("xyz", args)})
                cases.append({"id": cid, "ast": b, "env": env})
                meta[cid] = (arity, b, args)
            rnd.shuffle(tuples)
    vals = kgeval.tlc_eval(cases, ev, "KgEvalCases.tla: bodies under substitution")
    n_forms = n_proj = judged = 0
    for cid, (ok, exp) in vals.items():
        if not ok:
            continue
        judged += 1
        arity, b, args = meta[cid]
        body_src = kgeval.render_ast(b)
        args_src = [canon.render(a) for a in args]
        atoms_only = all(a["t"] != "l" for a in args)
        progs = list(call_forms(body_src, args_src, arity, atoms_only).items())
        if arity >= 2:
            progs += projection_programs(body_src, args_src, arity)
        for name, src in progs:
            k = fresh()
            try:
                got = canon.canon(k(src))
                exc = None
            except BaseException as e:   # noqa
                got, exc = {"t": "exc", "v": type(e).__name__}, f"{type(e).__name__}: {str(e)[:80]}"
            if name.startswith("fill"):
                n_proj += 1
            else:
                n_forms += 1
            if name.endswith("+global") and canon.same(exp, got):
                try:
                    gt = canon.canon(k("t"))
                except BaseException as e:   # noqa
                    gt = {"t": "exc", "v": type(e).__name__}
                if not canon.same(I(100), gt):
                    vd.violation({"what": f"{src} gives the value of the substituted body, but afterwards the global t is {canon.show(gt) if gt['t'] != 'exc' else gt} "
                                          f"instead of 100 [{name}]", "part": "substitution", "form": name.split(" ")[0], "src": src,
                                  "numeric_only": False, "expected": "100"}, matcher=matcher)
            if not canon.same(exp, got):
                numeric_only = got["t"] != "exc" and canon.same_mod(exp, got, numeric=True)
                vd.violation({"what": f"{src} gives {canon.show(got) if got['t'] != 'exc' else exc}; the substituted body "
                                      f"{body_src} with {args_src} has the value {canon.show(exp)} [{name}]",
                              "part": "substitution", "form": name.split(" ")[0], "src": src, "numeric_only": numeric_only,
                              "expected": canon.show(exp)}, matcher=matcher)

    # (iii) conditionals -----------------------------------------------------------------------------------------
    conds = [("0", I(0)), ("[]", L()), ('""', S("")), ("1", I(1)), ("-1", I(-1)), ("2.5", R(5, 2)), ("0.0", R(0, 1)), ("[0]", L(I(0))),
             ('"a"', S("a")), (":s", {"t": "y", "v": [115]}), (":{}", {"t": "d", "v": []}), ("[[]]", L(L())), ("0ca", {"t": "c", "v": 97})]
    ccases = [{"id": i + 1, "ast": {"k": "cond", "c": lit(v), "t": lit(I(1)), "e": lit(I(2))}, "env": {}} for i, (s, v) in enumerate(conds)]
    cvals = kgeval.tlc_eval(ccases, ev, "KgEvalCases.tla: conditionals over every truth class")
    n_cond = 0
    for i, (s, v) in enumerate(conds):
        ok, exp = cvals[i + 1]
        want = [1, 0] if exp["v"] == 1 else [0, 1]
        for shape in (f"t::0;e::0;:[{s};t::t+1;e::e+1];t,e", f"t::0;e::0;c::{s};:[c;t::t+1;e::e+1];t,e",
                      f"t::0;e::0;f::{{:[x;t::t+1;e::e+1]}};f({s});t,e"):
            k = KlongInterpreter()
            n_cond += 1
            try:
                got = [int(q) for q in k(shape)]
            except BaseException as ex:   # noqa
                got = f"{type(ex).__name__}"
            if got != want:
                vd.violation({"what": f"conditional on {s}: counters [then else] = {got}, truth by the reference gives {want}: {shape}",
                              "part": "conditional", "src": shape}, matcher=matcher)

    # (iv) fault sequences -----------------------------------------------------------------------------------------
    traces, tmeta = [], {}
    for site, repl in FAULT_SITES.items():
        parts = dict(DEFAULTS)
        parts.update(repl)
        defs = {n: t.format(**parts) for n, t in FAULT_BODIES.items()}
        k, twin = fresh(), fresh()
        for n in ("h", "m", "o"):
            k(f"{n}::{defs[n]}")
            twin(f"{n}::{DEFAULTS_BODY[n]}") if False else twin(f"{n}::{defs[n]}")
        pre, dpre = snapshot(k)
        failed = False
        try:
            k("o(3;4)")
        except BaseException:   # noqa
            failed = True
        post, dpost = snapshot(k)
        assigned = [g for g in ("g1", "g2") if f"{g}::" in "".join(repl.values())]
        follow_src = "g3::{[a];a::x;a*2}(21);(,g3),(#g2),h(1)" if site == "none" else "g3::{[a];a::x;a*2}(21);(,g3),#g2"
        # the twin never ran the failing call but gets the deliberate assignments the program made before the fault
        for g in assigned:
            twin[g] = k[g]
        res = []
        for interp in (k, twin):
            try:
                res.append(json.dumps(canon.canon(interp(follow_src)), sort_keys=True))
            except BaseException as ex:   # noqa
                res.append("EXC " + type(ex).__name__)
        tid = len(traces)
        traces.append({"tid": tid, "pre": pre, "post": post, "depth_pre": dpre, "depth_post": dpost, "assigned": assigned + ["g3"],
                       "hidden": ["x", "y", "z", "a", "b", "c"], "follow": res[0], "twin": res[1]})
        tmeta[tid] = (site, defs, failed)
        if site != "none" and not failed:
            vd.violation({"what": f"fault site {site}: the call of an undefined function did not fail: {defs}", "part": "fault"}, matcher=matcher)
    d = stage_spec("kg/FrameAbs.tla", "kg/FrameTrace.tla")
    tf = os.path.join(d, "frames.json")
    with open(tf, "w") as f:
        json.dump(traces, f)
    cfg = os.path.join(d, "t.cfg")
    with open(cfg, "w") as f:
        f.write("INIT Init\nNEXT Next\nCHECK_DEADLOCK FALSE\n")
    rt = run_tlc(os.path.join(d, "FrameTrace.tla"), cfg, workers=1, extra_env={"TRACE_FILE": tf}, timeout=1200)
    ev.add_tlc("FrameTrace.tla (fault sequences judged against FrameAbs.tla)", rt)
    verdicts = {v["tid"]: v["bad"] for v in rt.prints if isinstance(v, dict) and "tid" in v}
    if len(verdicts) != len(traces):
        raise MachineryError("frame validation incomplete")
    for tid, bad in verdicts.items():
        if bad != "ok":
            site, defs, failed = tmeta[tid]
            vd.violation({"what": f"fault site {site}: {bad}: definitions {defs}; pre {traces[tid]['pre']} post {traces[tid]['post']} "
                                  f"depth {traces[tid]['depth_pre']}->{traces[tid]['depth_post']} follow {traces[tid]['follow']} twin {traces[tid]['twin']}",
                          "part": "fault", "clause": bad, "site": site}, matcher=matcher)
    ev.cov["evaluations"] = n_forms + n_proj + n_cond + len(traces)
    ev.cov["traces_validated_against_impl"] = n_forms + n_proj + n_cond + len(traces)
    ev.cov["distinct_nontrivial"] = judged
    ev.cov["call_form_programs"] = n_forms
    ev.cov["projection_programs"] = n_proj
    ev.cov["conditional_programs"] = n_cond
    ev.cov["fault_sites"] = len(traces)
    ev.cov["rule"] = ("(i) every body of the grammar to depth 1 plus seeded depth-2 bodies, each mentioning exactly its parameters, x argument "
                      "tuples, in 5-7 call forms; (ii) every projection pattern and fill order for arity 2 and 3; (iii) 13 truth classes x 3 "
                      "program shapes; (iv) 22 fault sites (undefined function, failing primitive, raising Python callable, raising system function) in three nested calls with locals; nilads in nested and recursive (.f) forms; non-trivial = (body, arguments) pairs inside "
                      "the verbs' domains")
    ev.sample({"body": kgeval.render_ast(meta[1][1]), "args": [canon.render(a) for a in meta[1][2]]})
    ev.cov["checker_cmd"] = "tlc KgEvalCases.tla ; tlc FrameTrace.tla"
    ev.assumptions += ["bodies mention exactly the parameters of their arity", "the failing call is a call of an undefined function, an "
                       "undefined projection or an out-of-range index; assignments before the fault are separate statements"]
    return vd.finish()


def matcher(f, case):
    m = f.get("match", {})
    if "part" in m and case.get("part") != m["part"]:
        return False
    if "forms" in m and case.get("form") not in m["forms"]:
        return False
    if m.get("numeric_only") and not case.get("numeric_only"):
        return False
    if "site" in m and case.get("site") not in m["site"]:
        return False
    if "src_contains" in m and m["src_contains"] not in case.get("src", ""):
        return False
    return True


DEFAULTS_BODY = {}


def replay(path):
    with open(path) as f:
        case = json.load(f)["case"]
    print(json.dumps(case, indent=1)[:3000])
    return 0
