"""C12 - parsing always terminates and is repeatable.

spec/parse/ParseAbs.tla    the judgement: work within the fixed polynomial Budget(n), second parse identical, no effect on
                           variables, re-parsed program evaluates the same
spec/parse/ParseGen.tla    all strings over the token alphabet up to length 3 (TLC enumerates them)
spec/parse/ParseTrace.tla  judgement of the recorded observations by TLC

Inputs: (i) every string of up to 2 tokens and (quick: a seeded sample of / thorough: all) strings of 3 tokens; (ii) token-level
single and double edits (delete, insert, swap, truncate) of the lines of the repository's .kg corpus - all single edits of the
lines that use parse-time functions (.comment, .module) or conditionals, a seeded sample of the rest; (iii) generated long inputs
(deep nesting, long lists, unterminated constructs).  prog(text) runs under sys.setprofile, which counts every Python and builtin
call and stops the parse at twice the budget (plus a wall-clock backstop for loops that call nothing).
"""
import glob
import json
import os
import random
import re
import signal
import sys

import common
from common import Evidence, Verdicts, run_tlc, stage_spec, MachineryError

PROP = "C12"
TOKENS = ["1", "-1", "2.5", "1e", "0c", "0ca", '"', '"a"', '""', ":", ":a", "a", "x", "fn", ".f", "(", ")", "[", "]", "{", "}", ";",
          ":[", ":|", ":{", "+", "-", "/", "\\", "'", ":~", "::", ",", "@", " ", "\n", ':"', ".comment(", ".module(", "!", "#", "$", "0", ":="]
LEX = re.compile(r'"(?:[^"]|"")*"|0c.|\d+\.\d+|\d+|\.[a-z]+\(?|[a-zA-Z][a-zA-Z0-9]*|:[\[\|\{~\\/\'\*:=#_\$\+\-%@\^]|::|\\[~\*]|\s+|.', re.S)


def budget(n):
    return 2000 + 400 * n + 40 * n * n


class Stop(BaseException):
    pass


def guarded(fn, limit):
    """Run fn() counting call events; returns (done, calls, value | exception)."""
    count = [0]

    def prof(frame, event, arg):
        if event == "call" or event == "c_call":
            count[0] += 1
            if count[0] > limit:
                sys.setprofile(None)
                raise Stop()

    def alarm(signum, frame):
        raise Stop()
    old = signal.signal(signal.SIGALRM, alarm)
    signal.setitimer(signal.ITIMER_REAL, 6.0)
    try:
        sys.setprofile(prof)
        try:
            v = fn()
            return True, count[0], ("value", v)
        finally:
            sys.setprofile(None)
    except Stop:
        return False, count[0], ("stopped", None)
    except RecursionError as e:
        return True, count[0], ("error", "RecursionError")
    except BaseException as e:   # noqa
        return True, count[0], ("error", type(e).__name__)
    finally:
        signal.setitimer(signal.ITIMER_REAL, 0)
        signal.signal(signal.SIGALRM, old)


def struct(x, depth=0):
    import numpy as np
    from klongpy.core import KGSym, KGChar, KGFn, KGCall, KGOp, KGAdverb, KGCond, KGLambda
    if depth > 200:
        return "deep"
    if isinstance(x, KGCall):
        return ["call", struct(x.a, depth + 1), struct(x.args, depth + 1), x.arity]
    if isinstance(x, KGFn):
        return ["fn", struct(x.a, depth + 1), struct(x.args, depth + 1), x.arity]
    if isinstance(x, KGOp):
        return ["op", struct(x.a, depth + 1) if not isinstance(x.a, str) else x.a, x.arity]
    if isinstance(x, KGAdverb):
        return ["adverb", struct(x.a, depth + 1), x.arity]
    if isinstance(x, KGSym):
        return ["sym", str(x)]
    if isinstance(x, KGChar):
        return ["char", str(x)]
    if isinstance(x, KGLambda):
        return ["lambda"]
    if isinstance(x, str):
        return ["str", x]
    if isinstance(x, KGCond):
        return ["cond"] + [struct(y, depth + 1) for y in x]
    if isinstance(x, np.ndarray) and x.ndim == 0:
        return ["arr0", struct(x.item(), depth + 1)]
    if isinstance(x, np.ndarray):
        return ["arr", x.dtype.kind, [struct(y, depth + 1) for y in x.tolist()] if x.dtype == object else x.tolist()]
    if isinstance(x, (list, tuple)):
        return ["list"] + [struct(y, depth + 1) for y in x]
    if isinstance(x, dict):
        return ["dict"] + [[struct(k, depth + 1), struct(v, depth + 1)] for k, v in x.items()]
    if isinstance(x, (int, float, np.integer, np.floating)):
        return [type(x).__name__[:3], repr(float(x)) if isinstance(x, (float, np.floating)) else int(x)]
    if x is None:
        return None
    return ["obj", type(x).__name__]


def var_snapshot(k):
    snap = {}
    for d in list(k._context._context)[:-1]:           # all but the read-only system scope
        try:
            items = list(d.items())
        except Exception:   # noqa
            continue
        for name, v in items:
            snap[str(name)] = json.dumps(struct(v), sort_keys=True, default=str)
    return snap


class Subject:
    def __init__(self):
        from klongpy import KlongInterpreter
        self.new = KlongInterpreter
        self.k = KlongInterpreter()
        self.uses = 0

    def observe(self, text, with_eval):
        if self.uses > 400:
            self.k = self.new()
            self.uses = 0
        self.uses += 1
        k = self.k
        k._module = None
        n = len(text)
        o = {"n": n, "again": "na", "vars_same": True, "eval_cmp": "na"}
        before = var_snapshot(k)
        depth0 = len(k._context._context)
        done, calls, out = guarded(lambda: k.prog(text), 2 * budget(n))
        o["done"], o["calls"] = done, calls
        o["outcome"] = "program" if out[0] == "value" else "error"
        if not done:
            self.k = self.new()
            self.uses = 0
            return o
        k._module = None
        done2, calls2, out2 = guarded(lambda: k.prog(text), 2 * budget(n))
        k._module = None
        if not done2:
            o["again"] = "differs"
        elif out[0] == "value" and out2[0] == "value":
            o["again"] = "same" if (out[1][0] == out2[1][0] and json.dumps(struct(out[1][1]), default=str) == json.dumps(struct(out2[1][1]), default=str)) else "differs"
        else:
            o["again"] = "same" if out[:2] == out2[:2] else "differs"
        o["vars_same"] = var_snapshot(k) == before and len(k._context._context) == depth0
        if with_eval and out[0] == "value" and o["again"] == "same":
            res = []
            for which in (1, 2):
                t = self.new()
                p = t.prog(text)[1]
                t._module = None
                if which == 2:
                    p = t.prog(text)[1]
                    t._module = None

                def ev(t=t, p=p):
                    r = None
                    for q in p:
                        r = t.call(q)
                    return r
                d, c, r = guarded(ev, 40000)
                if not d:
                    res.append(("skip",))
                else:
                    # results that print an object's address ($ of an operator) are compared modulo the address
                    res.append((r[0], re.sub(r"0x[0-9a-f]+", "0x", json.dumps(struct(r[1]), default=str)) if r[0] == "value" else r[1]))
            if ("skip",) not in res:
                o["eval_cmp"] = "same" if res[0] == res[1] else "differs"
        return o


def corpus_lines(repo):
    lines = []
    for path in sorted(glob.glob(os.path.join(repo, "tests", "**", "*.kg"), recursive=True)):
        with open(path, errors="replace") as f:
            for ln in f.read().split("\n"):
                if ln.strip() and len(ln) < 200:
                    lines.append(ln)
    return sorted(set(lines))


def edits(tokens, rnd, how):
    t = list(tokens)
    if not t:
        return t
    j = rnd.randrange(len(t))
    if how == "delete":
        del t[j]
    elif how == "insert":
        t.insert(j, rnd.choice(TOKENS))
    elif how == "swap" and len(t) > 1:
        j = min(j, len(t) - 2)
        t[j], t[j + 1] = t[j + 1], t[j]
    elif how == "truncate":
        t = t[:j]
    return t


def all_single_edits(tokens):
    out = []
    for j in range(len(tokens) + 1):
        if j < len(tokens):
            out.append(tokens[:j] + tokens[j + 1:])
            out.append(tokens[:j])
            if j + 1 < len(tokens):
                out.append(tokens[:j] + [tokens[j + 1], tokens[j]] + tokens[j + 2:])
        for tok in TOKENS:
            out.append(tokens[:j] + [tok] + tokens[j:])
    return out


def run(tier, seed):
    import logging
    logging.disable(logging.CRITICAL)
    ev = Evidence(PROP, tier, seed)
    vd = Verdicts(PROP, ev)
    thorough = tier == "thorough"
    rnd = random.Random(seed)
    d = stage_spec("parse/ParseAbs.tla", "parse/ParseGen.tla", "parse/ParseTrace.tla")
    cfg = os.path.join(d, "g.cfg")
    with open(cfg, "w") as f:
        f.write("INIT Init\nNEXT Next\nCONSTANTS\n  NTokens = %d\n  MaxLen = 3\nINVARIANT Emit\nCHECK_DEADLOCK FALSE\n" % len(TOKENS))
    r = run_tlc(os.path.join(d, "ParseGen.tla"), cfg, workers=1, timeout=3000)
    ev.add_tlc(f"ParseGen.tla: all strings of up to 3 tokens over an alphabet of {len(TOKENS)}", r)
    strings = [p for p in r.prints if isinstance(p, list)]
    want = sum(len(TOKENS) ** q for q in range(0, 4))
    if len(strings) != want:
        raise MachineryError(f"{len(strings)} token strings emitted, expected {want}")
    short = [s for s in strings if len(s) <= 2]
    long3 = [s for s in strings if len(s) == 3]
    rnd.shuffle(long3)
    if not thorough:
        # the parse-time functions are complete also at length 3
        pt = {TOKENS.index(".comment(") + 1, TOKENS.index(".module(") + 1}
        first = [s for s in long3 if s[0] in pt]
        long3 = first + [s for s in long3 if s[0] not in pt][:12000]
    inputs = [("tokens", "".join(TOKENS[i - 1] for i in s), True) for s in short + long3]
    ev.cov["token_strings_len_le_2"] = len(short)
    ev.cov["token_strings_len_3"] = len(long3)
    repo = os.environ.get("KLVERIF_REPO", "/repo")
    lines = corpus_lines(repo)
    if len(lines) < 200:
        raise MachineryError("corpus not found")
    special = [ln for ln in lines if ".comment" in ln or ".module" in ln or ":[" in ln]
    rnd.shuffle(special)
    n_special = 0
    for ln in special[:(12 if not thorough else 200)]:
        toks = LEX.findall(ln)
        for e in all_single_edits(toks):
            inputs.append(("corpus-single-edit", "".join(e), False))
            n_special += 1
    n_single = 6000 if not thorough else 150000
    n_double = 3000 if not thorough else 80000
    hows = ["delete", "insert", "swap", "truncate"]
    for _ in range(n_single):
        toks = LEX.findall(rnd.choice(lines))
        inputs.append(("corpus-single-edit", "".join(edits(toks, rnd, rnd.choice(hows))), False))
    for _ in range(n_double):
        toks = LEX.findall(rnd.choice(lines))
        inputs.append(("corpus-double-edit", "".join(edits(edits(toks, rnd, rnd.choice(hows)), rnd, rnd.choice(hows))), False))
    for ln in lines:
        inputs.append(("corpus-line", ln, False))
    gen = []
    for n in (10, 50, 200, 600):
        gen += ["[" * n, "(" * n, "{" * n, ":[" * n, "[" * n + "]" * n, "(" * n + "1" + ")" * n, "{" * n + "x" + "}" * n, "1;" * n,
                "[" + "1 " * n + "]", "a::" * n, "+/" * n, "f(" * n, '"' + "a" * n, ":\"" + "c" * n, "0c" * n, ":{[1 2]" * n,
                "x'" * n, "1+" * n, "[;" * n, ".comment(\"e\")" + "x" * n, "{[a];" * n, "f(1;" * n, ":[1;2;" * n, "a@" * n]
    inputs += [("generated", g, False) for g in gen]
    common.use_repo()
    subj = Subject()
    obs = []
    worst = 0.0
    for tid, (family, text, with_eval) in enumerate(inputs):
        o = subj.observe(text, with_eval)
        o["tid"] = tid
        obs.append(o)
        if o["done"]:
            worst = max(worst, o["calls"] / budget(o["n"]))
    tf = os.path.join(d, "obs.json")
    with open(tf, "w") as f:
        json.dump(obs, f)
    cfgt = os.path.join(d, "t.cfg")
    with open(cfgt, "w") as f:
        f.write("INIT Init\nNEXT Next\nCHECK_DEADLOCK FALSE\n")
    rt = run_tlc(os.path.join(d, "ParseTrace.tla"), cfgt, workers=1, extra_env={"TRACE_FILE": tf}, timeout=3000)
    ev.add_tlc("ParseTrace.tla", rt, "observations judged with ParseAbs!Verdict in blocks of 2000")
    blocks = [x for x in rt.prints if isinstance(x, dict) and "block" in x]
    if sum(b["judged"] for b in blocks) != len(obs):
        raise MachineryError(f"{sum(b['judged'] for b in blocks)} observations judged, {len(obs)} recorded")
    clusters = {}
    for b in blocks:
        for x in b["bad"]:
            family, text, _ = inputs[x["tid"]]
            o = obs[x["tid"]]
            case = {"clause": x["bad"], "family": family, "text": text, "n": o["n"], "calls": o["calls"],
                    "what": f"prog({text[:120]!r}{'...' if len(text) > 120 else ''}) [{family}, {o['n']} characters]: {x['bad']} "
                            f"(calls {o['calls']}, budget {budget(o['n'])}, outcome {o['outcome']}, second parse {o['again']}, "
                            f"variables unchanged {o['vars_same']}, evaluation {o['eval_cmp']})"}
            sig = re.sub(r"[a-z0-9 ]+", "a", text)[:12]
            clusters.setdefault((x["bad"], sig), []).append(case)
    for key, items in sorted(clusters.items(), key=lambda kv: str(kv[0])):
        items.sort(key=lambda c: len(c["text"]))
        case = dict(items[0])
        case["cluster_size"] = len(items)
        vd.violation(case, matcher=matcher)
    ev.cov["evaluations"] = len(obs)
    ev.cov["traces_validated_against_impl"] = len(obs)
    ev.cov["distinct_nontrivial"] = sum(1 for o in obs if o["outcome"] == "program")
    ev.cov["inputs_by_family"] = {fam: sum(1 for i in inputs if i[0] == fam) for fam in sorted({i[0] for i in inputs})}
    ev.cov["all_single_edits_of_special_lines"] = n_special
    ev.cov["worst_calls_over_budget"] = round(worst, 4)
    ev.cov["evaluated_twice_and_compared"] = sum(1 for o in obs if o["eval_cmp"] != "na")
    ev.cov["rule"] = (f"all strings of <= 2 tokens and {'all' if thorough else 'a seeded sample of'} strings of 3 tokens over {len(TOKENS)} "
                      f"tokens (parse twice, variables before/after, evaluate both parses in twin interpreters); token-level single and "
                      f"double edits of the {len(lines)} distinct lines of tests/**/*.kg (all single edits of lines with parse-time "
                      f"functions or conditionals); generated inputs up to 7200 characters; non-trivial = inputs that parse to a program")
    ev.sample({"text": inputs[100][1], "observation": obs[100]})
    ev.cov["checker_cmd"] = "tlc ParseGen.tla ; prog(text) under sys.setprofile ; tlc ParseTrace.tla"
    ev.assumptions += ["work = number of Python and builtin calls made by prog(text); a loop that makes no call at all is caught by the "
                       "6 s wall-clock backstop only", "the fixed polynomial is Budget(n) = 2000 + 400 n + 40 n^2 calls (ParseAbs.tla)",
                       "evaluation of both parses is compared for the token strings only (corpus lines use files, channels and processes)"]
    return vd.finish()


def matcher(f, case):
    m = f.get("match", {})
    if "clauses" in m and case["clause"] not in m["clauses"]:
        return False
    if "text_regex" in m and not re.search(m["text_regex"], case["text"]):
        return False
    return True


def replay(path):
    with open(path) as f:
        case = json.load(f)["case"]
    common.use_repo()
    subj = Subject()
    print(json.dumps(subj.observe(case["text"], True), indent=1))
    print(case["what"])
    return 0
