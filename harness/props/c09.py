"""C09 - the interpreter is a faithful dictionary of Python values and functions.

spec/py/PyAbs.tla    the property as a monitor: store of names (data / Python callable / Klong function), invocation counters of
                     the callables, Python-side handles; what each application must log and return
spec/py/PyGen.tla    generator of interop histories with the prescribed observations
spec/py/PyTrace.tla  validation of recorded histories

TLC enumerates histories (store data, store a Python callable of arity 0..3 with/without a leading klong parameter, define /
redefine / delete a Klong function, obtain klong[name], read back, apply the callable directly / through @ / through a
projection / as the verb of Each and Over / from Python, call the handle with 0..3 arguments, call name(a;b;c)); the real
interpreter executes each history with instrumented callables (every invocation logs the arguments it received and whether it
got the interpreter; the return value is fresh per invocation); the recorded logs and results are judged by TLC against PyAbs.
"""
import functools
import json
import types
import os
import random

import common
from common import Evidence, Verdicts, run_tlc, stage_spec, MachineryError

PROP = "C09"
BODIES = {"seven": "{7}", "inc": "{x+1}", "neg": "{-x}", "cnt": "{#x}", "enl": "{,x}", "sub": "{x-y}", "right": "{y}", "pair": "{x,y}",
          "negy": "{x+-y}", "viapy": "{pf(x)}", "sum3": "{x+y+z}", "third": "{z}", "xz": "{x*z}",
          # functions defined as PROJECTIONS of the dyad sb::{x-y} and the triad s3::{x+y+z} (defined before every history)
          "pleft": "sb(1;)", "pright": "sb(;2)", "pmid": "s3(1;;3)"}
ARGT = ["1", "2", "3", "[1 2]", "'ab'"]        # 'ab' stands for the string "ab" (no double quotes inside TLC constants)


def txt(v):
    import numpy as np
    from klongpy.core import KGSym, KGChar
    if isinstance(v, KGSym):
        return ":" + str(v)
    if isinstance(v, KGChar):
        return "0c" + str(v)
    if isinstance(v, str):
        return "'" + v + "'"
    if isinstance(v, (bool, np.bool_, int, np.integer)):
        return str(int(v))
    if isinstance(v, (float, np.floating)):
        return ("%g" % float(v))
    if isinstance(v, (list, tuple, np.ndarray)):
        return "[" + " ".join(txt(x) for x in v) + "]"
    return "<" + type(v).__name__ + ">"


def pyval(t):
    import numpy as np
    if t.startswith("["):
        return np.array([int(x) for x in t[1:-1].split()])
    if t.startswith("'"):
        return t[1:-1]
    return int(t)


class Callable:
    """Factory of instrumented Python callables with an exact signature."""

    def __init__(self, k, log):
        self.k, self.log, self.count = k, log, {}

    def make_pf(self):
        """callable 9: pf(x) raises KeyError for x = 3 (a dictionary miss inside a handler), else returns 9000 + invocation count"""
        self.count[9] = 0
        outer = self

        def pf(x):
            outer.count[9] += 1
            outer.log.append({"id": 9, "args": [txt(x)], "klok": True})
            if int(x) == 3:
                raise KeyError("callable #9 fails (scripted)")
            return 9000 + outer.count[9]
        return pf

    def make(self, cid, ar, kl, rz=False, perm=False):
        self.count[cid] = 0
        outer = self

        def body(klong_arg, *args):
            outer.count[cid] += 1
            outer.log.append({"id": cid, "args": [txt(a) for a in args], "klok": (klong_arg is outer.k) if kl else True})
            if rz:
                raise [KeyError, TypeError, ValueError, IndexError][cid % 4](f"callable #{cid} fails (scripted)")
            return cid * 1000 + outer.count[cid]
        if perm and ar >= 2:
            # parameters DECLARED in another order than x, y, z: arguments are still delivered positionally
            # (the first evaluated argument to the first declared parameter)
            if kl:
                return [None, None, lambda klong, y, x: body(klong, y, x), lambda klong, z, x, y: body(klong, z, x, y)][ar]
            return [None, None, lambda y, x: body(None, y, x), lambda z, x, y: body(None, z, x, y)][ar]
        if kl:
            plain = [lambda klong: body(klong), lambda klong, x: body(klong, x), lambda klong, x, y: body(klong, x, y),
                     lambda klong, x, y, z: body(klong, x, y, z)][ar]
        else:
            plain = [lambda: body(None), lambda x: body(None, x), lambda x, y: body(None, x, y), lambda x, y, z: body(None, x, y, z)][ar]
        # the property speaks of "a Python callable whose parameters are among x, y, z": the kind of callable object varies with the id
        shape = SHAPES[cid % len(SHAPES)]
        if shape == "lambda":
            return plain
        if shape == "decorated":              # a function behind a functools.wraps decorator: its signature is that of the wrapped function
            @functools.wraps(plain)
            def inner(*a, **kw):
                return plain(*a, **kw)
            return inner
        params = (["klong"] if kl else []) + list("xyz"[:ar])
        ns = {"body": body}
        exec(f"def lead({', '.join(['first'] + params)}): return body({'klong' if kl else 'None'}{''.join(', ' + q for q in 'xyz'[:ar])})", ns)
        if shape == "method":                  # a bound method
            return types.MethodType(ns["lead"], object())
        return functools.partial(ns["lead"], "tag")   # a partial application with the leading parameter fixed


SHAPES = ["lambda", "decorated", "method", "partial"]


def call_source(n, form, a):
    a = [x.replace("'", '"') for x in a]
    if form == "direct":
        return f"{n}({';'.join(a)})"
    if form == "at":
        return f"{n}@{a[0]}" if len(a) == 1 else f"{n}@[{' '.join(a)}]"
    if form == "projl":
        return f"pj::{n}({a[0]};);pj({a[1]})"
    if form == "projr":
        return f"pj::{n}(;{a[1]});pj({a[0]})"
    if form == "projm":
        return f"pj::{n}({a[0]};;{a[2]});pj({a[1]})"
    if form == "each":
        return f"{n}'[{' '.join(a)}]"
    if form == "over":
        return f"{n}/[{' '.join(a)}]"
    raise MachineryError(form)


def execute(hist):
    from klongpy import KlongInterpreter
    k = KlongInterpreter()
    log = []
    fac = Callable(k, log)
    k["pf"] = fac.make_pf()
    k("sb::{x-y}")
    k("s3::{x+y+z}")
    wraps = {}
    events, shown = [], []
    for e in hist:
        ev = dict(e)
        op = e["op"]
        shown.append(op)
        try:
            if op == "setdata":
                shown[-1] = f"klong[{e['n']!r}] = {e['v']}"
                k[e["n"]] = pyval(e["v"])
            elif op == "setpy":
                shown[-1] = f"klong[{e['n']!r}] = <callable #{e['id']} ({'klong, ' if e['kl'] else ''}{', '.join('xyz'[:e['ar']])}){' raising' if e.get('rz') else ''}{' declared in another order' if e.get('perm') and e['ar'] >= 2 else ', a ' + SHAPES[e['id'] % len(SHAPES)]}>"
                k[e["n"]] = fac.make(e["id"], e["ar"], e["kl"], e.get("rz", False), e.get("perm", False))
            elif op == "defkg":
                shown[-1] = f"{e['n']}::{BODIES[e['body']]}"
                k(f"{e['n']}::{BODIES[e['body']]}")
            elif op == "del":
                shown[-1] = f"del klong[{e['n']!r}]"
                del k[e["n"]]
            elif op == "getwrap":
                shown[-1] = f"{e['w']} = klong[{e['n']!r}]"
                wraps[e["w"]] = k[e["n"]]
            elif op == "readdata":
                ev["obs"] = txt(k[e["n"]]) if e["via"] == "python" else txt(k(e["n"]))
                shown[-1] = f"klong[{e['n']!r}]" if e["via"] == "python" else f"klong('{e['n']}')"
            elif op == "callpy":
                del log[:]
                if e["form"] == "pyread":
                    shown[-1] = f"klong[{e['n']!r}]({', '.join(e['args'])})"
                    r = k[e["n"]](*[pyval(a) for a in e["args"]])
                else:
                    src = call_source(e["n"], e["form"], e["args"])
                    shown[-1] = src
                    r = k(src)
                ev["res"] = txt(r)
                ev["log"] = list(log)
            elif op == "callwrap":
                shown[-1] = f"{e['w']}({', '.join(str(a) for a in e['args'])})"
                del log[:]
                try:
                    ev["res"] = txt(wraps[e["w"]](*e["args"]))
                except RuntimeError as ex:
                    ev["res"] = "rejected" if "expected" in str(ex) else "raised:RuntimeError"
                finally:
                    ev["log"] = list(log)
            elif op == "callkg":
                src = f"{e['n']}({';'.join(str(a) for a in e['args'])})"
                shown[-1] = src
                del log[:]
                try:
                    ev["res"] = txt(k(src))
                finally:
                    ev["log"] = list(log)
        except BaseException as ex:   # noqa
            err = f"raised:{type(ex).__name__}: {str(ex)[:60]}"
            if op == "readdata":
                ev["obs"] = err
            elif op in ("callpy", "callwrap", "callkg"):
                ev["res"] = err
                if op == "callpy":
                    ev["log"] = list(log)
                if "fails (scripted)" in str(ex):
                    ev["res"] = "raised"
            else:
                ev["op"] = "failed-" + op        # the monitor ignores it; reported by the harness
                ev["error"] = err
        events.append(ev)
    return events, shown


def run(tier, seed):
    import logging
    logging.disable(logging.CRITICAL)
    ev = Evidence(PROP, tier, seed)
    vd = Verdicts(PROP, ev)
    thorough = tier == "thorough"
    d = stage_spec("py/PyAbs.tla", "py/PyGen.tla", "py/PyTrace.tla")
    mod = os.path.join(d, "PyGen.tla")

    def cfg(name, names, argt, maxops, maxid=2, theme="all", ints=(1, 2, 3)):
        p = os.path.join(d, name)
        q = lambda xs: "{" + ", ".join(json.dumps(x) for x in xs) + "}"   # noqa
        with open(p, "w") as f:
            f.write("INIT Init\nNEXT Next\nCONSTANTS\n  Names = %s\n  Slots = {\"w1\"}\n  MaxId = %d\n  MaxOps = %d\n  ArgT = %s\n  Theme = \"%s\"\n  IntArgs = {%s}\n"
                    "INVARIANT Good\nINVARIANT Emit\nCHECK_DEADLOCK FALSE\n" % (q(names), maxid, maxops, q(argt), theme, ", ".join(str(i) for i in ints)))
        return p
    depth = 3 if not thorough else 4
    r1 = run_tlc(mod, cfg("tree.cfg", ["f"], ["1", "'ab'"] if not thorough else ["1"], depth), workers=1, timeout=7200)
    ev.add_tlc(f"PyGen.tla: all histories of {depth} operations on one name", r1, "invariant Good: the generator's expectations satisfy PyAbs")
    if r1.violated:
        vd.violation({"what": f"design-level: PyGen.tla violates {r1.violated}", "counterexample": r1.cex[:4000]})
    rnd = random.Random(seed)
    tree = [p for p in r1.prints if isinstance(p, list)]
    rnd.shuffle(tree)
    hists = tree[:(12000 if not thorough else 60000)]
    # every history of 3 operations on Klong functions and their handles (13 bodies, handle calls with 0..3 arguments from {1, 3})
    rk = run_tlc(mod, cfg("tree_kg.cfg", ["f"], ["1"], 3, theme="kg", ints=(1, 3)), workers=1, timeout=7200)
    ev.add_tlc("PyGen.tla theme kg: all histories of 3 operations (define / redefine / delete / handle / call), all replayed", rk)
    if rk.violated:
        vd.violation({"what": f"design-level: PyGen.tla violates {rk.violated}", "counterexample": rk.cex[:4000]})
    hists += [p for p in rk.prints if isinstance(p, list)]
    # handle life cycle, exhaustive: define / take the handle / delete / call while deleted / redefine with the other arity / call
    rh = run_tlc(mod, cfg("tree_hd.cfg", ["f"], ["1"], 6 if not thorough else 7, theme="hd", ints=(1,)), workers=1, timeout=7200)
    ev.add_tlc(f"PyGen.tla theme hd: all histories of {6 if not thorough else 7} operations over two bodies of different arity "
               "(define / handle / delete / call the handle, also while its name is deleted / redefine), all replayed", rh)
    if rh.violated:
        vd.violation({"what": f"design-level: PyGen.tla violates {rh.violated}", "counterexample": rh.cex[:4000]})
    hd = [p for p in rh.prints if isinstance(p, list)]
    ev.cov["handle_life_cycle_histories"] = len(hd)
    hists += hd
    nsim = 3000 if not thorough else 30000
    r2 = run_tlc(mod, cfg("sim.cfg", ["f", "g"], ARGT, 8, maxid=4), workers=1, simulate=f"num={nsim // 3}", depth=9, seed=seed + 3, timeout=7200)
    ev.add_tlc(f"PyGen.tla -simulate num={nsim // 3}: histories of 8 operations on two names ({nsim} of the emitted histories replayed)", r2)
    if r2.violated:
        vd.violation({"what": f"design-level: PyGen.tla violates {r2.violated}", "counterexample": r2.cex[:4000]})
    sims = [p for p in r2.prints if isinstance(p, list)]
    rnd.shuffle(sims)
    hists += sims[:nsim]
    for theme, names in (("kg", ["f"]), ("py", ["f"])):
        r3 = run_tlc(mod, cfg(f"sim_{theme}.cfg", names, ARGT[:3] + ARGT[4:], 7, maxid=3, theme=theme), workers=1,
                     simulate=f"num={nsim // 3}", depth=8, seed=seed + 4, timeout=7200)
        ev.add_tlc(f"PyGen.tla -simulate num={nsim // 3}, theme {theme}: histories of 7 operations on one name", r3)
        if r3.violated:
            vd.violation({"what": f"design-level: PyGen.tla violates {r3.violated}", "counterexample": r3.cex[:4000]})
        sims = [p for p in r3.prints if isinstance(p, list)]
        rnd.shuffle(sims)
        hists += sims[:nsim]
    if len(hists) < 500:
        raise MachineryError(f"only {len(hists)} histories emitted")
    common.use_repo()
    traces, meta = [], {}
    for h in hists:
        events, shown = execute(h)
        tid = len(traces)
        traces.append({"tid": tid, "names": ["f", "g"], "slots": ["w1"], "maxid": 4, "events": events})
        meta[tid] = (h, shown)
    tf = os.path.join(d, "py.json")
    with open(tf, "w") as f:
        json.dump(traces, f)
    cfgt = os.path.join(d, "trace.cfg")
    with open(cfgt, "w") as f:
        f.write("INIT Init\nNEXT Next\nCHECK_DEADLOCK FALSE\n")
    rt = run_tlc(os.path.join(d, "PyTrace.tla"), cfgt, workers=1, extra_env={"TRACE_FILE": tf}, timeout=7200)
    ev.add_tlc("PyTrace.tla", rt, "one state per recorded history")
    verdicts = {v["tid"]: v for v in rt.prints if isinstance(v, dict) and "tid" in v}
    if len(verdicts) != len(traces):
        raise MachineryError(f"trace validation returned {len(verdicts)} verdicts for {len(traces)} histories")
    clusters = {}
    for tid, t in enumerate(traces):
        h, shown = meta[tid]
        v = verdicts[tid]
        failed = [x for x in t["events"] if x["op"].startswith("failed-")]
        if failed and v["bad"] == "ok":
            idx = t["events"].index(failed[0])
            case = {"clause": "OperationRaised", "op": failed[0]["op"][7:], "form": None, "body": h[idx].get("body"), "history": shown[:idx + 1],
                    "what": f"history {shown[:idx + 1]}: the operation raised {failed[0]['error']}"}
            clusters.setdefault(("OperationRaised", case["op"], None, case["body"]), []).append(case)
            continue
        if v["bad"] == "ok":
            continue
        at = v["at"]
        e, want = t["events"][at - 1], h[at - 1]
        body = None
        if e["op"] in ("callwrap", "callkg"):
            for x in reversed(h[:at]):
                if x["op"] == "defkg":
                    body = x["body"]
                    break
        case = {"clause": v["bad"], "op": e["op"], "form": e.get("form"), "body": body, "history": shown[:at],
                "what": f"history {shown[:at]}: `{shown[at - 1]}` observed "
                        f"{ {k_: e.get(k_) for k_ in ('obs', 'res', 'log') if k_ in e} }, prescribed { {k_: want.get(k_) for k_ in ('obs', 'res', 'log') if k_ in want} } [{v['bad']}]"}
        clusters.setdefault((v["bad"], e["op"], e.get("form"), body), []).append(case)
    for key, items in sorted(clusters.items(), key=lambda kv: str(kv[0])):
        items.sort(key=lambda c: len(c["history"]))
        case = dict(items[0])
        case["cluster_size"] = len(items)
        vd.violation(case, matcher=matcher)
    ev.cov["traces_validated_against_impl"] = len(traces)
    ev.cov["evaluations"] = sum(len(t["events"]) for t in traces)
    ev.cov["distinct_nontrivial"] = sum(1 for t in traces if any(e["op"] in ("callpy", "callwrap") for e in t["events"]))
    ev.cov["forms_covered"] = sorted({e.get("form") for t in traces for e in t["events"] if e.get("form")})
    ev.cov["bodies_covered"] = sorted({e.get("body") for t in traces for e in t["events"] if e.get("body")})
    ev.cov["rule"] = (f"all histories of {depth} operations on one name (exhaustive tree of PyGen.tla) and seeded -simulate histories of 8 "
                      f"operations on two names: 8 signature shapes (arity 0..3, with/without klong), 8 call forms, 13 Klong bodies of "
                      f"arity 0..3 (incl. parameters used only under a monadic operator / not all mentioned), handle calls with 0..3 "
                      f"arguments, redefinition and deletion; non-trivial = contains an application")
    ev.sample({"history": meta[0][1]})
    ev.cov["checker_cmd"] = "tlc PyGen.tla ; tlc PyTrace.tla"
    ev.assumptions += ["callables declared (y, x) / (z, x, y) receive the evaluated arguments positionally (first argument -> first declared "
                       "parameter); subsets such as (y) or (x, z) are not enumerated", "module import remapping (.py / .pyf) is not enumerated yet",
                       "the behaviour of a handle after its name was deleted or rebound to a non-function is not judged"]
    return vd.finish()


def matcher(f, case):
    m = f.get("match", {})
    for key in ("clause", "op", "form", "body"):
        if key + "s" in m and case.get(key) not in m[key + "s"]:
            return False
    return True


def replay(path):
    with open(path) as f:
        case = json.load(f)["case"]
    print(json.dumps(case, indent=1)[:3000])
    return 0
