"""C13 - remote evaluation over IPC equals evaluation on the server.

(i)  framing: spec/net/Wire.tla (implementation-shaped reader over an arbitrarily fragmented byte stream),
     spec/net/WireTrace.tla.  TLC enumerates every way of cutting the byte stream of 1..3 real frames into
     up to 3 reads (and ending it at every byte-boundary class); each fragmentation is fed to a real
     asyncio.StreamReader and consumed by the real stream_recv_msg; what was delivered is judged by TLC.
(ii) remote operations: spec/net/IpcAbs.tla (remote handle = the server's interpreter), RemoteTrace.tla.
     Operation sequences over the transportable universe run against a LIVE server on loopback and against a
     twin interpreter; TLC judges the recorded results.
"""
import asyncio
import json
import logging
import os
import uuid

import common
from common import Evidence, Verdicts, run_tlc, stage_spec, MachineryError

PROP = "C13"


def real_frames(msgs):
    common.use_repo()
    from klongpy.sys_fn_ipc import encode_message
    ids = [uuid.UUID(int=0x1000 + i) for i in range(len(msgs))]
    frames = [encode_message(i, m) for i, m in zip(ids, msgs)]
    return ids, frames


def write_wire_mc(d, lens, maxreads, eofs, record, name, cuts=None):
    cfg = os.path.join(d, f"{name}.cfg")
    with open(os.path.join(d, f"{name}.tla"), "w") as f:
        f.write(f"---- MODULE {name} ----\nEXTENDS Wire\nMCLens == <<{', '.join(str(x) for x in lens)}>>\n"
                f"MCEof == {{{', '.join(str(x) for x in eofs)}}}\n"
                f"MCCuts == {('{' + ', '.join(str(x) for x in cuts) + '}') if cuts is not None else '0..Total'}\n====\n")
    lines = ["INIT Init", "NEXT Next", "CONSTANTS", "  Lens <- MCLens", f"  MaxReads = {maxreads}", "  EofAt <- MCEof", "  Cuts <- MCCuts",
             f"  RecordHist = {'TRUE' if record else 'FALSE'}", "INVARIANT InOrderIntact", "INVARIANT AllComplete",
             "INVARIANT FailOnlyOnCut", "CHECK_DEADLOCK FALSE"]
    if record:
        lines.append("INVARIANT Emit")
    with open(cfg, "w") as f:
        f.write("\n".join(lines) + "\n")
    return os.path.join(d, f"{name}.tla"), cfg


def feed_and_receive(frames, ids, msgs, reads):
    """Feed the concatenated frames to a real StreamReader in the given chunks; run the real stream_recv_msg."""
    from vloop import VLoop
    from klongpy.sys_fn_ipc import stream_recv_msg
    loop = VLoop()
    reader = asyncio.StreamReader(loop=loop)
    stream = b"".join(frames)
    got, state = [], {"failed": False, "err": None}

    async def consume():
        try:
            while True:
                mid, body = await stream_recv_msg(reader)
                got.append((mid, body))
        except asyncio.IncompleteReadError as e:
            state["failed"], state["err"] = True, "IncompleteReadError"
        except BaseException as e:   # noqa
            state["failed"], state["err"] = True, type(e).__name__
    task = loop.create_task(consume())
    loop.run_ready()
    pos = 0
    for n in reads:
        if n == 0:
            reader.feed_eof()
        else:
            reader.feed_data(stream[pos:pos + n])
            pos += n
        loop.run_ready()
    delivered = []
    for mid, body in got:
        k = ids.index(mid) + 1 if mid in ids else 0
        same = k > 0 and repr_msg(body) == repr_msg(msgs[k - 1])
        delivered.append({"k": k, "id": k > 0, "body": bool(same)})
    if not task.done():
        task.cancel()
        loop.run_ready()
    loop.close()
    return {"lens": [len(f) - 20 for f in frames], "reads": list(reads), "delivered": delivered,
            "failed": bool(state["failed"]), "err": state["err"] or ""}


def listen_and_respond(cmds, ids, frames, reads, pause):
    """The same fragmentation fed to a real NetworkClient in its server role (its own listener loop around stream_recv_msg, the
    command evaluated on a second loop by a real interpreter, the response written back), with a PAUSE of virtual time after every
    read: what comes back are the response frames, in order, under the ids of the requests."""
    import pickle
    from vloop import VLoop
    from ipcdriver import FakeWriter
    import klongpy.sys_fn_ipc as ipc
    from klongpy import KlongInterpreter
    io, kl = VLoop(), VLoop()
    reader = asyncio.StreamReader(loop=io)
    writer = FakeWriter()
    prov = ipc.ReaderWriterConnectionProvider(reader, writer, "peer", 1)
    nc = ipc.NetworkClient.create_from_conn_provider(io, kl, KlongInterpreter(), prov)
    stream = b"".join(frames)
    task = io.create_task(nc.run_server())

    def settle():
        for _ in range(8):
            io.run_ready()
            kl.run_ready()
    settle()
    pos = 0
    for n in reads:
        if n == 0:
            reader.feed_eof()
        else:
            reader.feed_data(stream[pos:pos + n])
            pos += n
        settle()
        if pause:
            io.advance(pause)
            io.step()
            settle()
    delivered = []
    for raw, body in writer.frames:
        mid = uuid.UUID(bytes=raw)
        k = ids.index(mid) + 1 if mid in ids else 0
        try:
            val = pickle.loads(body)
        except Exception:   # noqa
            val = None
        delivered.append({"k": k, "id": k > 0, "body": bool(k > 0 and repr_msg(val) == repr_msg(cmds[k - 1][1]))})
    failed = task.done()
    if not task.done():
        task.cancel()
        settle()
    io.close()
    kl.close()
    return {"lens": [len(f) - 20 for f in frames], "reads": list(reads), "delivered": delivered, "failed": bool(failed), "err": ""}


def repr_msg(m):
    import numpy as np
    if isinstance(m, np.ndarray):
        return "A" + repr(m.tolist())
    return type(m).__name__ + (repr(m) if not (isinstance(m, str) and len(m) > 100) else f"<{len(m)} chars {hash(m)}>")


def eof_classes(lens):
    """byte offsets of every boundary class: inside id, inside length, inside body, between frames"""
    out, start = set(), 0
    for L in lens:
        out |= {start, start + 1, start + 15, start + 16, start + 17, start + 19, start + 20}
        if L > 0:
            out |= {start + 21 if L > 1 else start + 20, start + 20 + L // 2, start + 20 + L - 1}
        start += 20 + L
        out.add(start)
    return sorted(x for x in out if x <= start), start


def run_wire(ev, vd, d, thorough):
    import numpy as np
    big = "x" * 70000            # a body larger than 64 KiB followed by small frames (reads merge across frames)
    configs = [[1], ["ab", [1, 2]], [None, "x", 7], [big, 5, "yz"]]
    if thorough:
        configs += [[np.arange(3), "hello"], ["", 0, "abc"]]
    traces, meta = [], {}
    spins = 0
    for msgs in configs:
        if spins >= 2:
            break
        ids, frames = real_frames(msgs)
        lens = [len(f) - 20 for f in frames]
        eofs, total = eof_classes(lens)
        # design-level: all fragmentations into <= 3 reads, stream ends at any boundary class
        cuts = None
        if total > 400:        # long stream: reads end only at the boundary classes (and 3 offsets inside the big body)
            cuts = sorted(set(eofs) | {total // 3, total // 2, 65536 + 20, 65536 + 21})
        mod, cfg = write_wire_mc(d, lens, 3, eofs, False, "MCWire", cuts)
        r = run_tlc(mod, cfg, workers=16, coverage=True, timeout=3000)
        ev.add_tlc(f"Wire.tla frames {lens}: every cut into <= 3 reads x end of stream at {len(eofs)} boundary offsets", r,
                   "invariants InOrderIntact AllComplete FailOnlyOnCut")
        if r.violated:
            vd.violation({"what": f"design-level: Wire.tla violates {r.violated}", "counterexample": r.cex[:5000]})
        # behaviours: exhaustive for full delivery, per eof class separately (keeps emission small)
        sel = eofs if (len(msgs) <= 2 or thorough) else sorted(set(eofs[::3]) | {total})
        eof_sets = [sel]
        for es in eof_sets:
            mod, cfg = write_wire_mc(d, lens, 3 if (total <= 80 or thorough or cuts) else 2, es, True, "MCWireR", cuts)
            rr = run_tlc(mod, cfg, workers=1, timeout=3000)
            ev.cov["states"] += rr.distinct
            ev.cov["transitions"] += rr.generated
            for p in rr.prints:
                if not isinstance(p, dict) or "reads" not in p:
                    continue
                dl = common.deadline(30)
                try:
                    with dl:
                        t = feed_and_receive(frames, ids, msgs, p["reads"])
                    if dl.fired:
                        raise common.Spinning()
                except common.Spinning:
                    vd.violation({"what": f"framing: the receiver does not give control back (30 s): messages {[repr_msg(m) for m in msgs]} fed as reads "
                                          f"{p['reads']} (0 = end of stream)", "clause": "ReceiverSpins", "part": "wire"})
                    spins += 1
                    if spins >= 2:
                        break
                    continue
                t["tid"] = len(traces)
                traces.append(t)
                meta[t["tid"]] = (msgs, p)
    # the same judgement for the LISTENER of a real NetworkClient (server role): commands in, responses out, a pause of virtual time
    # after every read (a receive that gives up after a while must not lose the bytes it has already taken)
    import random
    cmds = [("k::5", 5), ("k*2", 10)]
    ids, frames = real_frames([c for c, _ in cmds])
    lens = [len(f) - 20 for f in frames]
    eofs, total = eof_classes(lens)
    mod, cfg = write_wire_mc(d, lens, 3, eofs, True, "MCWireL", None)
    rl = run_tlc(mod, cfg, workers=1, timeout=3000)
    ev.add_tlc(f"Wire.tla command frames {lens}: every cut into <= 3 reads x end of stream at {len(eofs)} boundary offsets (behaviours for the listener route)", rl)
    behs = [p for p in rl.prints if isinstance(p, dict) and "reads" in p]
    few = [p for p in behs if len(p["reads"]) <= 2]
    rest = [p for p in behs if len(p["reads"]) > 2]
    random.Random(7).shuffle(rest)
    n_listener = 0
    for p in few + rest[:(1200 if not thorough else 12000)]:
        dl = common.deadline(30)
        try:
            with dl:
                t = listen_and_respond(cmds, ids, frames, p["reads"], 2.5)
            if dl.fired:
                raise common.Spinning()
        except common.Spinning:
            vd.violation({"what": f"framing: the listener of a NetworkClient does not give control back (30 s): commands {[c for c, _ in cmds]} fed as reads "
                                  f"{p['reads']} (0 = end of stream)", "clause": "ReceiverSpins", "part": "wire"})
            break
        t["tid"] = len(traces)
        traces.append(t)
        meta[t["tid"]] = ([c for c, _ in cmds] + ["(through the listener of a NetworkClient, 2.5 s pause after every read)"], p)
        n_listener += 1
    ev.cov["fragmentations_through_the_listener_with_pauses"] = n_listener
    tf = os.path.join(d, "wire.json")
    with open(tf, "w") as f:
        json.dump(traces, f)
    cfgt = os.path.join(d, "wtrace.cfg")
    with open(cfgt, "w") as f:
        f.write("INIT Init\nNEXT Next\nCHECK_DEADLOCK FALSE\n")
    rt = run_tlc(os.path.join(d, "WireTrace.tla"), cfgt, workers=1, extra_env={"TRACE_FILE": tf}, timeout=3000)
    ev.add_tlc("WireTrace.tla", rt, "one state per fragmentation fed to the real reader")
    verdicts = {v["tid"]: v["bad"] for v in rt.prints if isinstance(v, dict) and "tid" in v}
    if len(verdicts) != len(traces):
        raise MachineryError(f"wire validation returned {len(verdicts)} verdicts for {len(traces)} traces")
    drift = 0
    for tid, bad in verdicts.items():
        msgs, p = meta[tid]
        t = traces[tid]
        if len(t["delivered"]) != p["ndelivered"] or t["failed"] != p["failed"]:
            drift += 1
        if bad != "ok":
            vd.violation({"what": f"framing: {bad}: messages {[repr_msg(m) for m in msgs]} body lengths {t['lens']} fed as reads "
                                  f"{t['reads']} (0 = end of stream): delivered {t['delivered']} failed={t['failed']} {t['err']}",
                          "clause": bad, "part": "wire", "trace": t})
    return traces, drift


def run(tier, seed):
    logging.disable(logging.CRITICAL)
    ev = Evidence(PROP, tier, seed)
    vd = Verdicts(PROP, ev)
    thorough = tier == "thorough"
    d = stage_spec("net/Wire.tla", "net/WireTrace.tla")
    common.use_repo()
    traces, drift = run_wire(ev, vd, d, thorough)
    n_wire = len(traces)
    n_remote = 0
    try:
        from props import c13_remote
    except ImportError:
        c13_remote = None
    if c13_remote is not None:
        n_remote = c13_remote.run_remote(ev, vd, thorough, seed)
    try:
        from props import c13_srv
        c13_srv.run_srv(ev)
    except ImportError:
        pass
    ev.cov["traces_validated_against_impl"] = n_wire + n_remote
    ev.cov["evaluations"] = n_wire + n_remote
    ev.cov["distinct_nontrivial"] = sum(1 for t in traces if len([x for x in t["reads"] if x > 0]) >= 2)
    ev.cov["wire_fragmentations"] = n_wire
    ev.cov["remote_operation_sequences"] = n_remote
    ev.cov["spec_drift"] = drift
    ev.cov["rule"] = ("(i) every fragmentation that Wire.tla admits for the real frames (<= 3 reads, end of stream at every "
                      "boundary class) fed to a real asyncio.StreamReader + stream_recv_msg; non-trivial = >= 2 non-empty reads; "
                      "(ii) remote operation sequences against a live loopback server vs. a twin interpreter")
    for t in traces[:2]:
        ev.sample(t)
    if drift:
        print(f"SPEC-DRIFT property={PROP}: {drift} fragmentations delivered differently from Wire.tla's prediction")
    ev.cov["checker_cmd"] = "tlc Wire.tla ; tlc WireTrace.tla ; tlc RemoteTrace.tla"
    ev.assumptions += ["pickle's own fidelity is observed end to end, not modelled",
                       "frames <= 60 bytes; longer frames differ only in the body length field"]
    return vd.finish()


def replay(path):
    with open(path) as f:
        case = json.load(f)["case"]
    print(json.dumps(case, indent=1)[:4000])
    return 0
