"""C08 - numeric programs mean the same under the NumPy and PyTorch backends.

spec/kg/KgEval.tla (KgValues, KgVerbs, KgAdverbs)   the reference value of every program, evaluated by TLC (oracle; names which backend
                                                  deviates when they differ)

Programs of the numeric core grammar - arithmetic, comparison, min/max, negate, floor, reductions and scans, each, indexing,
take/drop/reverse/join - over the variables a and b are generated up to a bounded depth and evaluated for every binding class
(integer and real scalars, vectors, matrices) by one interpreter per backend.  The two results must have the same shape and
integer/real kind and equal elements up to single-precision rounding; their written forms must read back to such values;
a program that NumPy evaluates must be accepted by torch.  TLC evaluates KgEval on every case.
"""
import json
import os
import random

import common
import canon
import kgeval
from kgeval import lit, var, I, R, L
from common import Evidence, Verdicts, MachineryError

PROP = "C08"
BIND = {"int": {"a": I(3), "b": I(2)}, "negint": {"a": I(-7), "b": I(3)}, "real": {"a": R(5, 2), "b": R(1, 2)}, "negreal": {"a": R(-7, 4), "b": R(3, 2)},
        "ivec": {"a": L(I(3), I(1), I(2)), "b": L(I(4), I(5), I(6))}, "ivec-neg": {"a": L(I(-3), I(7), I(2)), "b": L(I(2), I(-2), I(5))},
        "rvec": {"a": L(R(1, 2), R(3, 2), R(5, 2)), "b": L(R(3, 2), R(1, 2), R(2, 1))},
        "rvec-frac": {"a": L(R(1, 2), R(7, 4), R(-9, 4)), "b": L(R(5, 4), R(1, 4), R(3, 1))},
        "mat": {"a": L(L(I(1), I(2)), L(I(3), I(4))), "b": L(L(I(5), I(6)), L(I(7), I(8)))},
        "rmat": {"a": L(L(R(1, 2), R(3, 2)), L(R(5, 2), R(7, 2))), "b": L(L(R(1, 1), R(2, 1)), L(R(1, 2), R(1, 4)))},
        "one": {"a": L(I(5)), "b": L(I(5))}, "one-scalar": {"a": L(R(5, 2)), "b": I(2)},
        "vec-scalar": {"a": L(I(3), I(1), I(2)), "b": I(2)}, "rvec-scalar": {"a": L(R(1, 2), R(7, 4), R(-9, 4)), "b": R(1, 2)}}
TOL = 2e-5
# operations the expression compiler handles: a program built only from these must be accepted by both backends
COMPILABLE = {"d+", "d-", "d*", "d%", "d^", "d=", "d<", "d>", "m-"} | {o + s for o in "+-*%|&" for s in ("/", "\\")}


def programs(rnd, n_deep):
    a, b = var("a"), var("b")
    leaves = [a, b, lit(I(2)), lit(R(1, 2))]
    dy = ["+", "-", "*", "%", "^", "=", "<", ">", "&", "|", ":%", "!"]
    out = []
    for op in dy:
        for x, y in ((a, b), (a, lit(I(2))), (lit(I(2)), a), (b, a), (a, lit(R(1, 2))), (a, lit(R(2, 1)))):      # 2 and 2.0: same value, two kinds
            out.append({"k": "dy", "op": op, "a": x, "b": y})
    for op in ("-", "_", "#", "|", "*"):                # negate, floor, size, reverse, first
        out.append({"k": "mo", "op": op, "a": a})
    for adv in ("over", "scan"):
        for op in ("+", "-", "*", "%", "|", "&"):
            out.append({"k": "ad", "adv": adv, "op": op, "a": a})
            out.append({"k": "ad", "adv": adv, "op": op, "a": b})
    # reductions and scans whose operand is NOT a plain variable (the verb's own shortcut runs, not the expression compiler's)
    for adv in ("over", "scan"):
        for op in ("+", "-", "*", "%", "|", "&"):
            out.append({"k": "ad", "adv": adv, "op": op, "a": {"k": "mo", "op": "|", "a": a}})
            out.append({"k": "ad", "adv": adv, "op": op, "a": {"k": "dy", "op": "#", "a": lit(I(2)), "b": a}})
    for op, n in (("#", 2), ("#", -2), ("_", 1), ("_", -1), ("@", 1), ("@", 0), (":+", 1)):
        out.append({"k": "dy", "op": op, "a": lit(I(n)), "b": a} if op != "@" else {"k": "dy", "op": "@", "a": a, "b": lit(I(n))})
    out.append({"k": "dy", "op": ",", "a": a, "b": b})
    out.append({"k": "dy", "op": "@", "a": a, "b": lit(L(I(1), I(0)))})
    for lam in ("dbl", "neg", "dec"):
        out.append({"k": "eachl", "lam": lam, "a": a})
    # one-element lists made by take / drop / index (not by the expression compiler) under comparisons and arithmetic: the result
    # is a one-element list, never an atom
    ones = [{"k": "dy", "op": "#", "a": lit(I(1)), "b": a}, {"k": "dy", "op": "_", "a": lit(I(2)), "b": a}, {"k": "dy", "op": "@", "a": a, "b": lit(L(I(2)))}]
    for o1 in ones:
        for op in ("=", "<", ">", "+", "&"):
            out.append({"k": "dy", "op": op, "a": o1, "b": b})
            out.append({"k": "dy", "op": op, "a": o1, "b": lit(I(2))})
            out.append({"k": "dy", "op": op, "a": lit(R(5, 2)), "b": o1})
        out.append({"k": "dy", "op": "=", "a": o1, "b": o1})
    d1 = list(out)
    deep = []
    while len(deep) < n_deep:
        q = rnd.random()
        if q < 0.45:
            e = {"k": "dy", "op": rnd.choice(dy[:10]), "a": rnd.choice(d1 + leaves), "b": rnd.choice(d1 + leaves)}
        elif q < 0.7:
            e = {"k": "mo", "op": rnd.choice(["-", "_", "|"]), "a": rnd.choice(d1)}
        elif q < 0.9:
            e = {"k": "ad", "adv": rnd.choice(["over", "scan"]), "op": rnd.choice(["+", "*", "|", "&", "-", "%"]), "a": rnd.choice([x for x in d1 if x["k"] in ("dy", "mo")])}
        else:
            e = {"k": "dy", "op": "-", "a": a, "b": {"k": "mo", "op": "_", "a": rnd.choice([a, b, {"k": "dy", "op": "*", "a": a, "b": lit(R(1, 2))}])}}
        if kgeval.vars_of(e):
            deep.append(e)
    # the operand of a verb read twice (in-place updates of an operand show only at the second read)
    twice = [{"k": "dy", "op": "-", "a": v, "b": {"k": "mo", "op": m, "a": v}} for v in (a, b) for m in ("_", "-", "|")] + \
            [{"k": "dy", "op": ",", "a": {"k": "mo", "op": "_", "a": v}, "b": v} for v in (a, b)] + \
            [{"k": "dy", "op": "+", "a": {"k": "ad", "adv": "scan", "op": o, "a": v}, "b": v} for v in (a, b) for o in ("+", "*", "%")]
    return out + twice + deep


def c8(v):
    import numpy as np
    if hasattr(v, "detach") and hasattr(v, "cpu"):
        v = v.detach().cpu().numpy()
    if isinstance(v, (bool, np.bool_)):
        return ["i", int(v)]
    if isinstance(v, (int, np.integer)):
        return ["i", int(v)]
    if isinstance(v, (float, np.floating)):
        return ["r", float(v)]
    if isinstance(v, np.ndarray):
        if v.ndim == 0:
            return c8(v.item())
        return ["l", [c8(x) for x in v]]
    if isinstance(v, (list, tuple)):
        return ["l", [c8(x) for x in v]]
    if isinstance(v, str):
        return ["s", v]
    return ["x", type(v).__name__]


def approx(a, b, kind=True):
    if a[0] == "l" or b[0] == "l":
        return a[0] == b[0] and len(a[1]) == len(b[1]) and all(approx(x, y, kind) for x, y in zip(a[1], b[1]))
    if a[0] in ("i", "r") and b[0] in ("i", "r"):
        if kind and a[0] != b[0]:
            return False
        x, y = float(a[1]), float(b[1])
        if x != x or y != y:
            return x != x and y != y
        if x in (float("inf"), float("-inf")) or y in (float("inf"), float("-inf")):
            return x == y
        return abs(x - y) <= TOL * max(1.0, abs(x), abs(y))
    return a == b


def nonfinite(c):
    """undefined, infinite or not-a-number anywhere in the result (what a division by zero leaves behind)"""
    if c[0] == "l":
        return any(nonfinite(x) for x in c[1])
    if c[0] == "r":
        return c[1] != c[1] or c[1] in (float("inf"), float("-inf"))
    return c[0] == "x" and "Undefined" in str(c[1])


def neg_int_power(e, k):
    """Does the program contain a power x^y whose exponent holds a negative INTEGER while the base holds integers only?
    (operand values of the sub-expressions are computed by the numpy interpreter, which has a and b bound)"""
    def ints_only(c, pred):
        if c[0] == "l":
            return any(ints_only(x, pred) for x in c[1]) if pred == "anyneg" else all(ints_only(x, pred) for x in c[1])
        if pred == "anyneg":
            return c[0] == "i" and c[1] < 0
        return c[0] == "i"
    found = False
    if e["k"] == "dy" and e["op"] == "^":
        try:
            ex = c8(k(kgeval.render_ast(e["b"])))
            ba = c8(k(kgeval.render_ast(e["a"])))
            found = ints_only(ex, "anyneg") and ints_only(ba, "all")
        except BaseException:   # noqa
            found = False
    return found or any(isinstance(e.get(key), dict) and neg_int_power(e[key], k) for key in ("a", "b"))


def truncated(np_c, t_c):
    """torch holds integers where numpy holds reals, each the truncation of the numpy element (integer power with a negative exponent)"""
    if np_c[0] == "l" or t_c[0] == "l":
        return np_c[0] == t_c[0] and len(np_c[1]) == len(t_c[1]) and all(truncated(x, y) for x, y in zip(np_c[1], t_c[1]))
    if np_c[0] in ("i", "r") and t_c[0] == "i":
        try:
            return int(np_c[1]) == int(t_c[1])
        except (OverflowError, ValueError):
            return False
    return False


def spec_c8(v):
    t = v["t"]
    if t == "i":
        return ["i", v["v"]]
    if t == "r":
        return ["r", v["v"][0] / v["v"][1]]
    if t == "l":
        return ["l", [spec_c8(x) for x in v["v"]]]
    return ["x", t]


def show(c):
    if c[0] == "l":
        return "[" + " ".join(show(x) for x in c[1]) + "]"
    if c[0] == "r":
        return repr(c[1])
    return str(c[1])


def run(tier, seed):
    import logging
    import warnings
    logging.disable(logging.CRITICAL)
    warnings.filterwarnings("ignore")
    ev = Evidence(PROP, tier, seed)
    vd = Verdicts(PROP, ev)
    thorough = tier == "thorough"
    rnd = random.Random(seed)
    progs = programs(rnd, 60 if not thorough else 800)
    cases = []
    for e in progs:
        for cls, env in BIND.items():
            cases.append({"id": len(cases) + 1, "ast": e, "env": env, "cls": cls})
    vals = kgeval.tlc_eval([{"id": c["id"], "ast": c["ast"], "env": c["env"]} for c in cases], ev, "KgEvalCases.tla: reference value of every program x binding")
    common.use_repo()
    from klongpy import KlongInterpreter
    from klongpy.writer import kg_write
    K = {"numpy": KlongInterpreter(backend="numpy"), "torch": KlongInterpreter(backend="torch", device="cpu")}
    clusters = {}
    n_both = n_defined = n_onesided = 0
    for c in cases:
        src = kgeval.render_ast(c["ast"])
        got, txt = {}, {}
        for be, k in K.items():
            try:
                for v in ("a", "b"):
                    k(f"{v}::{canon.render(c['env'][v])}")
                r = k(src)
                got[be] = c8(r)
                txt[be] = kg_write(r, k._backend, display=False)
            except BaseException as ex:   # noqa
                got[be] = ["exc", f"{type(ex).__name__}: {str(ex)[:70]}"]
        ok, exp = vals[c["id"]]
        n_defined += ok
        bad = None
        if got["numpy"][0] == "exc" and got["torch"][0] == "exc":
            continue
        if got["numpy"][0] == "exc" or got["torch"][0] == "exc":
            if not (ops_of(c["ast"]) <= COMPILABLE):
                n_onesided += 1                      # "whenever both return": not judged outside the compilable grammar
                continue
            bad = "TorchRejects" if got["torch"][0] == "exc" else "NumpyRejects"
        else:
            n_both += 1
            if not approx(got["numpy"], got["torch"], kind=False):
                bad = "ValuesDiffer"
            elif not approx(got["numpy"], got["torch"], kind=True):
                bad = "KindsDiffer"
            else:
                try:
                    back = {be: c8(K["numpy"](".rs(t)")) for be in K if not K["numpy"].__setitem__("t", txt[be])}
                    if not approx(back["numpy"], back["torch"], kind=True):
                        bad = "WrittenFormsDiffer"
                except BaseException as ex:   # noqa
                    bad = "WrittenFormsDiffer"
        if not bad:
            continue
        culprit = ""
        if ok and bad in ("ValuesDiffer", "KindsDiffer"):
            e8 = spec_c8(exp)
            culprit = " - torch deviates from KgEval" if approx(e8, got["numpy"], kind=(bad == "KindsDiffer")) else \
                      " - numpy deviates from KgEval" if approx(e8, got["torch"], kind=(bad == "KindsDiffer")) else ""
        ops = sorted(ops_of(c["ast"]))
        case = {"clause": bad, "src": src, "cls": c["cls"], "ops": ops, "top": top_of(c["ast"]),
                "nonfinite": any(nonfinite(got[be]) for be in got),
                "negative_integer_power": neg_int_power(c["ast"], K["numpy"]),
                "what": f"a::{canon.render(c['env']['a'])};b::{canon.render(c['env']['b'])};{src}: numpy gives "
                        f"{show(got['numpy']) if got['numpy'][0] != 'exc' else got['numpy'][1]}, torch gives "
                        f"{show(got['torch']) if got['torch'][0] != 'exc' else got['torch'][1]} [{bad}{culprit}]"
                        + (f"; written {txt.get('numpy')!r} / {txt.get('torch')!r}" if bad == "WrittenFormsDiffer" else "")}
        clusters.setdefault((bad, case["top"], c["cls"]), []).append(case)
    for key, items in sorted(clusters.items(), key=lambda kv: str(kv[0])):
        items.sort(key=lambda q: len(q["src"]))
        case = dict(items[0])
        case["cluster_size"] = len(items)
        case["more"] = [q["src"] for q in items[1:5]]
        vd.violation(case, matcher=matcher)
    ev.cov["evaluations"] = 2 * len(cases)
    ev.cov["traces_validated_against_impl"] = len(cases)
    ev.cov["distinct_nontrivial"] = n_both
    ev.cov["programs"] = len(progs)
    ev.cov["binding_classes"] = list(BIND)
    ev.cov["cases_evaluated_by_both_backends"] = n_both
    ev.cov["cases_inside_kgeval_domain"] = n_defined
    ev.cov["one_backend_fails_outside_compilable_grammar_not_judged"] = n_onesided
    ev.cov["mismatching_cases"] = sum(len(v) for v in clusters.values())
    ev.cov["rule"] = ("every program of the depth-1 families (12 dyads x 6 operand shapes, 6 monads, 12 reductions/scans, take/drop/rotate/"
                      "index/join, each), programs that read an operand twice, and seeded deeper programs x 12 binding classes (integer, "
                      "negative, real scalars; integer/real vectors and matrices; vector with scalar), each evaluated by one numpy and one "
                      "torch interpreter; non-trivial = both backends return")
    ev.sample({"program": kgeval.render_ast(cases[0]["ast"]), "bindings": cases[0]["cls"]})
    ev.cov["checker_cmd"] = "tlc KgEvalCases.tla ; the same source under KlongInterpreter(backend='numpy') and (backend='torch', device='cpu')"
    ev.assumptions += [f"'equal up to single-precision rounding': |x - y| <= {TOL} max(1, |x|, |y|)",
                       "a program rejected by both backends is not judged; KgEval is used to name the deviating backend only"]
    return vd.finish()


def ops_of(e):
    out = set()
    if e["k"] in ("dy", "mo"):
        out.add(("m" if e["k"] == "mo" else "d") + e["op"])
    if e["k"] == "ad":
        out.add(e["op"] + ("/" if e["adv"] == "over" else "\\"))
    if e["k"] == "eachl":
        out.add("each")
    for key in ("a", "b"):
        if isinstance(e.get(key), dict):
            out |= ops_of(e[key])
    return out


def top_of(e):
    if e["k"] == "ad":
        return e["op"] + ("/" if e["adv"] == "over" else "\\")
    if e["k"] in ("dy", "mo"):
        return ("m" if e["k"] == "mo" else "d") + e["op"]
    return e["k"]


def matcher(f, case):
    m = f.get("match", {})
    if "clauses" in m and case["clause"] not in m["clauses"]:
        return False
    if "tops" in m and case["top"] not in m["tops"]:
        return False
    if "ops_any" in m and not (set(m["ops_any"]) & set(case["ops"])):
        return False
    if "ops_subset" in m and not (set(case["ops"]) <= set(m["ops_subset"])):
        return False
    if "classes" in m and case["cls"] not in m["classes"]:
        return False
    if "nonfinite" in m and bool(case.get("nonfinite")) != bool(m["nonfinite"]):
        return False
    if "negative_integer_power" in m and bool(case.get("negative_integer_power")) != bool(m["negative_integer_power"]):
        return False
    return True


def replay(path):
    with open(path) as f:
        case = json.load(f)["case"]
    print(json.dumps(case, indent=1)[:3000])
    return 0
