"""C02 - adverbs equal their definitional expansion for every verb and operand.

spec/kg/KgAdverbs.tla   the 16 adverbs by definitional expansion (one generic fold / scan / map, no shortcuts), over verbs
                        that are primitive operators, lambdas, a projection and Python callables; adverb chains
spec/kg/KgAdvCases.tla  enumeration of adverb x verb x operand cases, evaluated by TLC

Every case whose expansion stays inside the verbs' domains is rendered as source (`+/a`, `a{x-y}:\\b`, `pyd/a`, `+/'m` ...),
evaluated by a fresh KlongInterpreter and compared with the value of the expansion.
"""
import json
import os

import common
import canon
from common import Evidence, Verdicts, run_tlc, stage_spec, MachineryError
from props.c01 import kind, diffclass

PROP = "C02"
LAMS = {"sub": "{x-y}", "nas": "{(2*x)-y}", "rgt": "{x;y}", "pair": "{x,y}", "dbl": "{x*2}", "neg": "{0-x}", "cnt": "{#x}",
        "half": "{x:%2}", "ix0": "{x@0}", "ix1": "{x@1}", "ixm": "{(x@0)*(x@1)}", "dec": "dec", "pyd": "pyd", "pym": "pym",
        "lt20": "{x<20}", "pos": "{x>0}", "sq1": "{(x*x)+1}"}
ADV = {"each": "'", "eachpair": ":'", "over": "/", "scan": "\\", "converge": ":~", "scanconverge": "\\~", "eachindex": "@'",
       "eachleft": ":\\", "eachright": ":/", "iterate": ":*", "scaniterate": "\\*", "while": ":~", "scanwhile": "\\~"}


def vtext(f):
    if f["k"] == "op":
        return f["v"]
    if f["k"] == "lam":
        return LAMS[f["v"]]
    return vtext(f["f"]) + ADV[f["v"]]


def vname(f):
    if f["k"] == "adv":
        return vname(f["f"]) + ADV[f["v"]]
    return f["v"]


def new_interp():
    from klongpy import KlongInterpreter
    k = KlongInterpreter()
    k("dec::{x-y}(;1)")
    k["pyd"] = lambda x, y: x - 2 * y
    k["pym"] = lambda x: x + 10
    return k


def source(c):
    if c["form"] in ("while", "scanwhile"):
        return f"{vtext(c['p'])}{vtext(c['f'])}{ADV[c['form']]}({canon.render(c['a'])})"
    f = vtext(c["f"]) + ADV[c["form"]]
    a = canon.render(c["a"])
    if c["ar"] == 1:
        return f"{f}({a})"
    return f"({a}){f}({canon.render(c['b'])})"


def matcher(f, case):
    m = f.get("match", {})
    if "forms" in m and case["form"] not in m["forms"]:
        return False
    if "ar" in m and case["ar"] != m["ar"]:
        return False
    if "verbs" in m and case["verb"] not in m["verbs"]:
        return False
    if "verb_endswith" in m and not case["verb"].endswith(m["verb_endswith"]):
        return False
    if "verb_kinds" in m and case["vkind"] not in m["verb_kinds"]:
        return False
    if "a" in m and case["ka"] not in m["a"]:
        return False
    if "any_operand" in m and not ({case["ka"], case.get("kb")} & set(m["any_operand"])):
        return False
    if "b" in m and case.get("kb") not in m["b"]:
        return False
    if "diff" in m and case["diff"] not in m["diff"]:
        return False
    if m.get("numeric_only") and not case["numeric_only"]:
        return False
    if m.get("char1_only") and not case["char1_only"]:
        return False
    return True


def run(tier, seed):
    import logging
    logging.disable(logging.CRITICAL)
    ev = Evidence(PROP, tier, seed)
    vd = Verdicts(PROP, ev)
    d = stage_spec("kg/KgValues.tla", "kg/KgVerbs.tla", "kg/KgAdverbs.tla", "kg/KgAdvCases.tla")
    cfg = os.path.join(d, "a.cfg")
    with open(cfg, "w") as f:
        f.write('INIT Init\nNEXT Next\nCONSTANT Tier = "%s"\nINVARIANT Emit\nCHECK_DEADLOCK FALSE\n' % tier)
    r = run_tlc(os.path.join(d, "KgAdvCases.tla"), cfg, workers=1, timeout=7200)
    ev.add_tlc(f"KgAdvCases.tla ({tier}): adverb x verb x operand cases, expansion evaluated by KgAdverbs.tla", r)
    cases = [p for p in r.prints if isinstance(p, dict) and "form" in p]
    if len(cases) < 1000:
        raise MachineryError(f"only {len(cases)} cases emitted")
    common.use_repo()
    clusters = {}
    forms = set()
    nbad = 0
    for c in cases:
        forms.add((c["form"], c["ar"]))
        src = source(c)
        k = new_interp()
        exc = None
        try:
            got = canon.canon(k(src))
        except BaseException as e:   # noqa
            got, exc = {"t": "exc", "v": type(e).__name__}, f"{type(e).__name__}: {str(e)[:90]}"
        if canon.same(c["exp"], got):
            continue
        nbad += 1
        info = {"form": c["form"], "ar": c["ar"], "verb": vname(c["f"]), "vkind": c["f"]["k"], "ka": kind(c["a"]),
                "kb": kind(c["b"]) if c["ar"] == 2 else None, "diff": diffclass(c["exp"], got), "src": src,
                "numeric_only": got["t"] != "exc" and canon.same_mod(c["exp"], got, numeric=True),
                "char1_only": got["t"] != "exc" and canon.same_mod(c["exp"], got, numeric=True, char1=True),
                "expected": canon.show(c["exp"]), "observed": canon.show(got) if got["t"] not in ("exc", "x", "b", "f") else str(got),
                "exception": exc}
        info["what"] = (f"{src} gives {info['observed']}{' (' + exc + ')' if exc else ''}; the expansion gives {info['expected']} "
                        f"[{info['form']}/{info['ar']} {info['verb']}; {info['ka']}{', ' + info['kb'] if info['kb'] else ''}; {info['diff']}]")
        key = (info["form"], info["ar"], info["verb"], info["ka"], info["kb"], info["diff"], info["numeric_only"])
        clusters.setdefault(key, []).append(info)
    # second and third route, in ONE long-lived interpreter: (2) the operands are values held by variables, bound once and used
    # by every case - an adverb must leave its operands alone; (3) the source with literal operands is the body of a function
    # that is called twice - the second call must return what the first returned (literals are part of the parsed program)
    bad_src = {x["src"] for items in clusters.values() for x in items}
    K = new_interp()
    ops, order = {}, []
    for c in cases:
        for o in ([c["a"]] if c["ar"] == 1 else [c["a"], c["b"]]):
            key = json.dumps(o, sort_keys=True)
            if key not in ops:
                ops[key] = (f"u{len(ops)}", o)
                order.append(key)
                K(f"u{len(ops) - 1}::{canon.render(o)}")
    bound = {key: canon.canon(K(ops[key][0])) for key in order}
    nroute = 0

    def report(c, src, how, got, exc, diff):
        info = {"form": c["form"], "ar": c["ar"], "verb": vname(c["f"]), "vkind": c["f"]["k"], "ka": kind(c["a"]),
                "kb": kind(c["b"]) if c["ar"] == 2 else None, "diff": diff, "src": src, "numeric_only": False, "char1_only": False,
                "expected": canon.show(c["exp"]), "observed": canon.show(got) if got["t"] not in ("exc", "x", "b", "f") else str(got),
                "exception": exc}
        info["what"] = (f"{src} {how} gives {info['observed']}{' (' + exc + ')' if exc else ''}; evaluated once from literals it gives "
                        f"the value of the expansion, {info['expected']}")
        clusters.setdefault((info["form"], info["ar"], info["verb"], info["ka"], info["kb"], diff, False), []).append(info)

    def ev1(src):
        try:
            return canon.canon(K(src)), None
        except BaseException as e:   # noqa
            return {"t": "exc", "v": type(e).__name__}, f"{type(e).__name__}: {str(e)[:90]}"
    for n, c in enumerate(cases):
        src = source(c)
        if src in bad_src:
            continue
        f = vtext(c["f"]) + ADV[c["form"]]
        if c["form"] in ("while", "scanwhile"):
            f = vtext(c["p"]) + f
        na = ops[json.dumps(c["a"], sort_keys=True)][0]
        vsrc = f"{f}({na})" if c["ar"] == 1 else f"({na}){f}({ops[json.dumps(c['b'], sort_keys=True)][0]})"
        got, exc = ev1(vsrc)
        nroute += 1
        if not canon.same(c["exp"], got):
            report(c, src, "with its operands held by variables of a long-lived interpreter", got, exc, "via-variable")
            continue
        K(f"g::{{{src}}}")
        ev1("g()")
        got, exc = ev1("g()")
        nroute += 1
        if not canon.same(c["exp"], got):
            report(c, src, "as the body of a function, at the second call,", got, exc, "second-call")
    # fourth route: a NAMED verb that is rebound between two evaluations of the same text (the adverb expression is the operand
    # of an operator, so that whatever the interpreter remembers about the parsed expression is reused)
    groups = {}
    for c in cases:
        if c["f"]["k"] == "lam" and c["f"]["v"] not in ("dec", "pyd", "pym") and c["form"] not in ("while", "scanwhile") and source(c) not in bad_src:
            groups.setdefault((c["form"], c["ar"], json.dumps(c["a"], sort_keys=True), json.dumps(c["b"], sort_keys=True)), []).append(c)
    nreb = 0
    def numeric(v):
        return v["t"] in ("i", "r") or (v["t"] == "l" and all(numeric(q) for q in v["v"]))

    for (form, ar, _, _), cs in groups.items():
        cs = [c for c in cs if numeric(c["exp"])]          # the expression is an operand of 0+...: its value must be numeric
        if len(cs) < 2 or nreb >= 400:
            continue
        c1, c2 = cs[0], cs[1]
        na = ops[json.dumps(c1["a"], sort_keys=True)][0]
        text = f"0+(nv{ADV[form]}({na}))" if ar == 1 else f"0+(({na})nv{ADV[form]}({ops[json.dumps(c1['b'], sort_keys=True)][0]}))"
        for c in (c1, c2, c1):
            K(f"nv::{LAMS[c['f']['v']]}")
            got, exc = ev1(text)
            exp = c["exp"]
            nreb += 1
            ok = canon.same(exp, got) or (exp["t"] in ("i", "r", "l") and canon.same_mod(exp, got, numeric=True))
            if not ok:
                report(c, f"nv::{LAMS[c['f']['v']]};{text}", "with the verb held by the name nv, rebound between evaluations of the same text,", got, exc, "named-verb-rebound")
                break
    ev.cov["named_verb_rebinding_evaluations"] = nreb
    # fifth route: ONE function per monadic adverb application, hf::{[t];t::<verb><adverb>w;t}, called again after its operand
    # variable w has been rebound to an operand of another shape (vector, [], matrix, atom, string ...), in both orders: whatever
    # is remembered about the parsed application from one operand must not be used for the next
    groups = {}
    for c in cases:
        if c["ar"] == 1 and c["form"] not in ("while", "scanwhile") and source(c) not in bad_src and c["f"]["k"] in ("op", "lam"):
            groups.setdefault((c["form"], json.dumps(c["f"], sort_keys=True)), []).append(c)
    nrebop = nfun = 0
    for (form, _), cs in sorted(groups.items()):
        seen_ops, uniq = set(), []
        for c in cs:
            key = json.dumps(c["a"], sort_keys=True)
            if key not in seen_ops:
                seen_ops.add(key)
                uniq.append(c)
        if len(uniq) < 2:
            continue
        uniq = uniq[:8]
        # every ordered pair of operands, each with a function defined afresh: what is decided at the first evaluation (from the
        # first operand) must not be applied to the second
        failed = False
        for c1 in uniq:
            for c2 in uniq:
                if c1 is c2 or failed:
                    continue
                # (a local of another name each time: the same text would be served from the interpreter's cache of parsed programs,
                # with whatever its nodes remember)
                nfun += 1
                K(f"hf::{{[t{nfun}];t{nfun}::{vtext(uniq[0]['f'])}{ADV[form]}w;t{nfun}}}")
                for c in (c1, c2):
                    K(f"w::{ops[json.dumps(c['a'], sort_keys=True)][0]}")
                    got, exc = ev1("hf()")
                    nrebop += 1
                    if not canon.same(c["exp"], got):
                        report(c, f"hf::{{[t];t::{vtext(c['f'])}{ADV[form]}w;t}};w::{canon.render(c['a'])};hf()",
                               f"(the function was first called with w::{canon.render(c1['a'])})" if c is c2 else "(first call)", got, exc, "operand-rebound")
                        failed = True
                        break
    ev.cov["operand_rebinding_evaluations"] = nrebop
    for key in order:
        name, o = ops[key]
        now = canon.canon(K(name))
        if not canon.same(bound[key], now):
            c0 = {"form": "(operand)", "ar": 1, "f": {"k": "op", "v": "(any)"}, "a": o, "exp": bound[key]}
            report(c0, f"{name}::{canon.render(o)}", "(an operand held by a variable) after all cases were evaluated", now, None, "operand-mutated")
    ev.cov["cases_through_variables_and_second_calls"] = nroute
    for key, items in sorted(clusters.items(), key=lambda kv: str(kv[0])):
        info = dict(items[0])
        info["cluster_size"] = len(items)
        vd.violation(info, matcher=matcher)
    ev.cov["evaluations"] = len(cases)
    ev.cov["traces_validated_against_impl"] = len(cases)
    ev.cov["distinct_nontrivial"] = sum(1 for c in cases if c["a"]["t"] in ("l", "s") and len(c["a"]["v"]) >= 2)
    ev.cov["mismatching_cases"] = nbad
    ev.cov["mismatch_clusters"] = len(clusters)
    ev.cov["forms_covered"] = sorted(f"{a}/{b}" for a, b in forms)
    ev.cov["exhaustive"] = True
    ev.cov["rule"] = ("every adverb form x verb (8 operators, 5 dyadic and 9 monadic functions incl. a projection and Python callables, "
                      "15 adverb-modified verbs for chains) x operand (pair) of KgAdvCases.tla whose expansion stays in the verbs' domains; "
                      "non-trivial = the mapped / folded operand has >= 2 elements")
    for c in cases[:1] + cases[len(cases) // 2:len(cases) // 2 + 1]:
        ev.sample({"source": source(c), "expansion_value": canon.show(c["exp"])})
    ev.cov["checker_cmd"] = "tlc KgAdvCases.tla ; replay into KlongInterpreter"
    ev.assumptions += ["dictionary operands of Each are C10's subject",
                       "verbs inherit the conservative domains of KgVerbs.tla"]
    return vd.finish()


def replay(path):
    with open(path) as f:
        case = json.load(f)["case"]
    common.use_repo()
    k = new_interp()
    print(case["src"], "->", end=" ")
    try:
        print(repr(k(case["src"])))
    except Exception as e:
        print("EXC", type(e).__name__, e)
    print("expansion:", case["expected"])
    return 0
