"""C18 - the file cache is linearizable under concurrent get, update and unload.

spec/store/FileCache.tla  implementation-shaped model (clients + worker tasks, one action per critical
                          section / file-system step)
spec/store/CacheAbs.tla   the property: register linearizability, final agreement, accounting
spec/store/CacheTrace.tla validation of histories recorded from the real FileCache

1. TLC checks FileCache.tla exhaustively over all pairs of client programs from a menu, with the histories
   of the listed known findings excluded (ExcludeKnown): MemNonNeg, MemBounded, NoInternalError, Accounting,
   Linearizable, deadlock freedom.
2. TLC (-simulate, no exclusion) emits complete interleavings; each is executed by the real FileCache under
   a deterministic thread scheduler (harness/sched.py) that interposes the lock, the executor, the futures
   and the file-system calls; the real history and final state are validated by TLC against CacheAbs.
3. A violating real run that exhibits the pattern of a listed finding is reported as KNOWN-FINDING, any
   other as VIOLATION.
"""
import json
import logging
import os

import common
import fcmodel
from common import Evidence, Verdicts, run_tlc, stage_spec, MachineryError

PROP = "C18"
SIZES = {"1": 2, "2": 3, "3": 2}
FILES = ["A", "B"]
DISK = {"A": 1, "B": -1}


def matcher(f, case):
    # a run is covered by the finding only if it shows the listed history pattern AND fails exactly the way the model of the
    # listed failure predicts (history, byte total, entries, disk); any other failure in that region is reported
    return f.get("match", {}).get("pattern") == "inflight" and case.get("known_pattern")


def validate(d, traces, ev, name):
    tf = os.path.join(d, f"{name}.json")
    with open(tf, "w") as fh:
        json.dump(traces, fh)
    cfg = os.path.join(d, "trace.cfg")
    with open(cfg, "w") as fh:
        fh.write("INIT Init\nNEXT Next\nCHECK_DEADLOCK FALSE\n")
    r = run_tlc(os.path.join(d, "CacheTrace.tla"), cfg, workers=1, extra_env={"TRACE_FILE": tf}, timeout=3000)
    ev.add_tlc(f"CacheTrace.tla ({name})", r, "one state per recorded run")
    verdicts = {v["tid"]: v["bad"] for v in r.prints if isinstance(v, dict) and "tid" in v}
    if len(verdicts) != len(traces):
        raise MachineryError(f"trace validation returned {len(verdicts)} verdicts for {len(traces)} traces")
    return verdicts


def replay_all(behs, ev, vd, d, tag):
    from fcdriver import FCDriver
    traces, meta = [], {}
    drift = 0
    for b in behs:
        drv = FCDriver(b["cf"], SIZES, FILES)
        try:
            proj = drv.run(b["steps"])
        finally:
            drv.cleanup()
        tid = len(traces)
        proj["tid"] = tid
        traces.append(proj)
        meta[tid] = (b, drv.known_pattern, drv.drift)
        # model prediction vs real history (spec drift, not a verdict)
        pred = [(h["c"], h["k"], h["f"], h["out"], 0 if h["out"] == "internalerr" else h["val"], h["inv"], h["res"])
                for h in b["hist"]]
        real = [(h["c"], h["k"], h["f"], h["out"], h["val"], h["inv"], h["res"]) for h in proj["hist"]]
        same_as_model = (pred == real and not drv.drift and proj["mem"] == b["mem"] and
                         all(proj["bytes"][f] == b["bytes"][f] for f in FILES) and all(proj["disk"][f] == b["disk"][f] or (drv.known_pattern and proj["disk"][f] == 99) for f in FILES))
        # (two write tasks on one file can only overlap inside the listed region - the entry of the first was unloaded - and then
        #  the later, shorter write leaves the tail of the longer one behind: content 99 = neither value; the model writes whole values)
        meta[tid] = (b, drv.known_pattern and same_as_model, drv.drift)
        if not same_as_model:
            drift += 1
            if len(ev.cov.setdefault("spec_drift_samples", [])) < 2:
                ev.cov["spec_drift_samples"].append({"predicted": pred, "real": real, "notes": drv.drift[:3],
                                                     "predicted_state": {"mem": b["mem"], "bytes": b["bytes"], "disk": b["disk"]},
                                                     "real_state": {"mem": proj["mem"], "bytes": proj["bytes"], "disk": proj["disk"]},
                                                     "steps": b["steps"]})
    verdicts = validate(d, traces, ev, tag)
    nviol = 0
    for tid, bad in verdicts.items():
        if bad == "ok":
            continue
        b, known, _ = meta[tid]
        nviol += 1
        vd.violation({"what": f"real FileCache run violates {bad}: programs {b['cf']['progs']} maxmem {b['cf']['maxmem']}",
                      "clause": bad, "cf": b["cf"], "steps": b["steps"], "observed": traces[tid],
                      "known_pattern": known}, matcher=matcher)
    return traces, drift, nviol


def run(tier, seed):
    logging.disable(logging.CRITICAL)
    ev = Evidence(PROP, tier, seed)
    vd = Verdicts(PROP, ev)
    thorough = tier == "thorough"
    d = stage_spec("store/FileCache.tla", "store/CacheAbs.tla", "store/CacheTrace.tla")
    clients = ["c1", "c2"]

    # 1. exhaustive design-level check, known histories excluded
    lens = {(1, 1), (1, 2)} if not thorough else {(1, 1), (1, 2), (2, 2)}
    cfgs = fcmodel.configs_2clients(lens, [3, 5], DISK)
    mod, cfg = fcmodel.write_mc(d, clients, FILES, SIZES, cfgs, True)
    r = run_tlc(mod, cfg, workers=16, coverage=True, deadlock=True, timeout=7200)
    ev.add_tlc(f"FileCache.tla exhaustive, {len(cfgs)} configurations (program pairs x limits), ExcludeKnown", r,
               "invariants TypeOK MemNonNeg MemBounded NoInternalError Accounting Linearizable + deadlock check")
    if r.violated:
        vd.violation({"what": f"design-level: FileCache.tla violates {r.violated} outside the listed findings",
                      "counterexample": r.cex[:8000]})
    for act in ("Invoke", "GExists", "GSize", "GLock", "GWait", "ULock", "UWait", "NLock", "LRead", "LLock",
                "WOpen", "WWrite", "WLock"):
        if r.coverage.get(act, (0, 0))[1] == 0:
            raise MachineryError(f"vacuity: action {act} never taken")
    if thorough:
        cfgs3 = []
        ps = fcmodel.programs(1)
        for p1 in ps:
            for p2 in ps:
                for p3 in ps:
                    if repr(p1) <= repr(p2) <= repr(p3):
                        for mm in (3, 5):
                            cfgs3.append({"maxmem": mm, "progs": {"c1": p1, "c2": p2, "c3": p3}, "disk": dict(DISK)})
        mod3, cfg3 = fcmodel.write_mc(d, ["c1", "c2", "c3"], FILES, SIZES, cfgs3, True, name="MCFC3")
        r3 = run_tlc(mod3, cfg3, workers=16, deadlock=True, timeout=7200)
        ev.add_tlc(f"FileCache.tla exhaustive, 3 clients x 1 op, {len(cfgs3)} configurations, ExcludeKnown", r3)
        if r3.violated:
            vd.violation({"what": f"design-level (3 clients): FileCache.tla violates {r3.violated}",
                          "counterexample": r3.cex[:8000]})

    # 1b. the listed findings at design level (expected to violate; recorded, not judged)
    mod, cfg = fcmodel.write_mc(d, clients, FILES, SIZES, cfgs, False)
    rk = run_tlc(mod, cfg, workers=16, deadlock=True, timeout=7200)
    ev.add_tlc("FileCache.tla without exclusion (design-level reproduction of the known findings)", rk,
               f"first violated: {rk.violated}")
    ev.cov["design_level_known_finding"] = rk.violated

    # 2. behaviours -> real code
    nsim = 2500 if not thorough else 20000
    simcfgs = fcmodel.configs_2clients({(1, 1), (1, 2), (2, 2)}, [3, 5], DISK)
    behs = []
    for excl, n in ((True, nsim), (False, nsim // 2)):
        mod, cfg = fcmodel.write_mc(d, clients, FILES, SIZES, simcfgs, excl, record=True, name="MCFCR")
        rs = run_tlc(mod, cfg, workers=1, simulate=f"num={n}", depth=90, seed=seed + 5, timeout=3000)
        ev.add_tlc(f"FileCache.tla -simulate num={n} ExcludeKnown={excl}", rs, "complete interleavings emitted for replay")
        behs += [p for p in rs.prints if isinstance(p, dict) and "steps" in p]
    seen, uniq = set(), []
    for b in behs:
        h = common.jhash([b["cf"], b["steps"]])
        if h not in seen:
            seen.add(h)
            uniq.append(b)
    behs = uniq
    if not behs:
        raise MachineryError("no behaviours emitted")
    traces, drift, nviol = replay_all(behs, ev, vd, d, "replays")
    ev.cov["traces_validated_against_impl"] = len(traces)
    ev.cov["evaluations"] = len(traces)
    ev.cov["distinct_nontrivial"] = sum(1 for b in behs if len({s["a"] for s in b["steps"]}) >= 3)
    ev.cov["rule"] = ("complete interleavings of FileCache.tla from TLC -simulate over all pairs of programs (<= 2 ops from "
                      "{get A, get B, upd A v2, upd A v3, upd B v1, unl A}) x limits {3,5}; each executed by the real "
                      "FileCache under the deterministic scheduler; non-trivial = at least 3 actors (two clients and a "
                      "worker task) interleaved")
    ev.cov["spec_drift"] = drift
    ev.cov["model_predicts_violation"] = sum(1 for b in behs if b["bad"] != "ok")
    ev.cov["real_violations_matching_known_findings"] = sum(vd.known_hits.values())
    for t in traces[:2]:
        ev.sample({"programs": behs[t["tid"]]["cf"]["progs"], "schedule": [s["a"] + ":" + s["l"] for s in behs[t["tid"]]["steps"]],
                   "history": t["hist"]})
    if drift:
        print(f"SPEC-DRIFT property={PROP}: {drift} of {len(traces)} replays differ from the model's predicted history")
    ev.cov["checker_cmd"] = "tlc FileCache.tla (MCFC) ; tlc CacheTrace.tla"
    ev.assumptions += ["the scheduler serialises threads at the yield points named in FileCache.tla; code between two "
                       "yield points is assumed atomic w.r.t. other controlled threads (it is: one thread runs at a time)",
                       "bounds: 2 (thorough: also 3) clients, <= 2 ops each, 2 files, 3 contents, limits {3,5} bytes",
                       "histories matching known_findings.json (F-C18-inflight) are excluded from the exhaustive check"]
    return vd.finish()


def replay(path):
    from fcdriver import FCDriver
    with open(path) as f:
        case = json.load(f)["case"]
    drv = FCDriver(case["cf"], SIZES, FILES)
    try:
        print(json.dumps(drv.run(case["steps"]), indent=1))
    finally:
        drv.cleanup()
    return 0
