"""C06 - gradient operators return the mathematical derivative.

spec/grad/KgDual.tla       exact derivatives of expression trees by forward-mode (dual number) evaluation over the rationals
spec/grad/KgDualCases.tla  TLC evaluates every generated (expression, point) case: value and every partial derivative

Expression trees over the differentiable operations (+ - * %, integer powers, negation, +/ reductions, indexing, each, vectors
built from scalars) are generated up to a bounded size, together with evaluation points inside the smooth domain; TLC computes
the exact partial derivatives.  Every case is rendered as Klong source in each gradient form - f:>p, p∇f (point and symbol),
p∂g, loss:>[w b], [w b]∂g - and evaluated under the NumPy backend (numeric differentiation) and the PyTorch backend
(autograd); each result must equal the exact derivative within the stated accuracy, and the two backends must agree.
"""
import itertools
import json
import os
import random
from fractions import Fraction

import common
from common import Evidence, Verdicts, run_tlc, stage_spec, MachineryError

PROP = "C06"
TOL = {"numpy": 5e-5, "torch": 5e-4}


def c(n, d=1):
    return {"k": "c", "n": n, "d": d}


def pv(name):
    return {"k": "pv", "name": name}


def ps(name):
    return {"k": "ps", "name": name}


def bn(k, a, b):
    return {"k": k, "a": a, "b": b}


EL = {"k": "el"}
OPS = {"add": "+", "sub": "-", "mul": "*", "div": "%"}


def num(n, d):
    f = Fraction(n, d)
    return str(f.numerator) if f.denominator == 1 else repr(float(f))


def render(e, names):
    """names: parameter name -> Klong text (the function parameter x, or a global)."""
    k = e["k"]
    if k == "c":
        s = num(e["n"], e["d"])
        return f"({s})" if s.startswith("-") else s
    if k in ("pv", "ps"):
        return names[e["name"]]
    if k == "el":
        return "x"
    if k in OPS:
        return f"({render(e['a'], names)}){OPS[k]}({render(e['b'], names)})"
    if k == "neg":
        return f"-({render(e['a'], names)})"
    if k == "pow":
        return f"({render(e['a'], names)})^{e['e']}" if e["e"] >= 0 else f"({render(e['a'], names)})^({e['e']})"
    if k == "sum":
        return f"+/({render(e['a'], names)})"
    if k == "idx":
        return f"({render(e['a'], names)})@{e['i']}"
    if k == "each":
        return f"{{{render(e['body'], names)}}}'({render(e['a'], names)})"
    if k == "cat":
        return f"({render(e['a'], names)}),({render(e['b'], names)})"
    raise MachineryError(k)


def size_ok(e, params, limit=1 << 18):
    """Guard for TLC's 32-bit integers: evaluate with Fractions and reject cases whose intermediate values get large.
    (Only magnitudes are used; the derivative itself is TLC's.)"""
    env = {p["name"]: [Fraction(a, b) for a, b in p["vals"]] for p in params}
    big = [False]

    def chk(v):
        for f in (v if isinstance(v, list) else [v]):
            if abs(f.numerator) > limit or f.denominator > limit:
                big[0] = True
        return v

    def ev(e, el):
        k = e["k"]
        if k == "c":
            return Fraction(e["n"], e["d"])
        if k == "pv":
            return list(env[e["name"]])
        if k == "ps":
            return env[e["name"]][0]
        if k == "el":
            return el
        if k in OPS:
            a, b = ev(e["a"], el), ev(e["b"], el)
            f = {"add": lambda p, q: p + q, "sub": lambda p, q: p - q, "mul": lambda p, q: p * q, "div": lambda p, q: p / q}[k]
            if isinstance(a, list) and isinstance(b, list):
                if len(a) != len(b):
                    raise ZeroDivisionError
                return chk([f(p, q) for p, q in zip(a, b)])
            if isinstance(a, list):
                return chk([f(p, b) for p in a])
            if isinstance(b, list):
                return chk([f(a, q) for q in b])
            return chk(f(a, b))
        if k == "neg":
            a = ev(e["a"], el)
            return [-p for p in a] if isinstance(a, list) else -a
        if k == "pow":
            a = ev(e["a"], el)
            return chk([p ** e["e"] for p in a] if isinstance(a, list) else a ** e["e"])
        if k == "sum":
            a = ev(e["a"], el)
            return chk(sum(a) if isinstance(a, list) else a)
        if k == "idx":
            return ev(e["a"], el)[e["i"]]
        if k == "each":
            return chk([ev(e["body"], p) for p in ev(e["a"], el)])
        if k == "cat":
            return [ev(e["a"], el), ev(e["b"], el)]
        raise MachineryError(k)
    try:
        v = ev(e, None)
        # the derivative's magnitude is bounded by a power of the value's for these trees: square the limit check
        chk([q * q for q in (v if isinstance(v, list) else [v])])
    except (ZeroDivisionError, IndexError, TypeError):
        return False
    return not big[0]


def vec_exprs(name, rnd, n_deep):
    x = pv(name)
    cs = [c(1, 2), c(2), c(3, 2), c(-1)]
    bodies = [bn("mul", EL, EL), bn("add", EL, c(1, 2)), {"k": "pow", "a": EL, "e": 3}, bn("div", c(1), EL), bn("sub", bn("mul", c(2), EL), c(1))]
    out = [x, bn("mul", x, x), {"k": "pow", "a": x, "e": 2}, {"k": "pow", "a": x, "e": 3}, {"k": "pow", "a": x, "e": -1}, {"k": "neg", "a": x}]
    out += [bn(op, x, k) for op in OPS for k in cs[:3]] + [bn(op, k, x) for op in OPS for k in cs[:2]]
    out += [{"k": "each", "body": b, "a": x} for b in bodies]
    d1 = list(out)
    for _ in range(n_deep):
        a, b = rnd.choice(d1), rnd.choice(d1 + cs)
        out.append(bn(rnd.choice(list(OPS)), a, b))
    return out


def scalar_exprs(name, n, rnd, n_deep):
    vs = vec_exprs(name, rnd, n_deep)
    out = [{"k": "sum", "a": v} for v in vs]
    out += [{"k": "idx", "a": v, "i": i} for v in vs[:12] for i in range(n)]
    comp = [{"k": "idx", "a": pv(name), "i": i} for i in range(n)]
    out += [bn(op, a, b) for op in OPS for a, b in itertools.permutations(comp, 2)]
    out += [{"k": "pow", "a": bn("add", comp[0], comp[-1]), "e": e} for e in (2, 3, -1)]
    d1 = list(out)
    for _ in range(n_deep):
        a, b = rnd.choice(d1), rnd.choice(d1 + [c(1, 2), c(2)])
        k = rnd.random()
        out.append(bn(rnd.choice(list(OPS)), a, b) if k < 0.7 else {"k": "pow", "a": a, "e": rnd.choice([2, -1])} if k < 0.85 else {"k": "neg", "a": a})
    return out


POINTS = {2: [[(1, 1), (2, 1)], [(1, 2), (3, 2)], [(2, 1), (-1, 1)], [(-3, 2), (1, 4)]],
          3: [[(1, 1), (2, 1), (3, 1)], [(1, 2), (3, 2), (2, 1)], [(2, 1), (-1, 1), (1, 2)]]}
SCALARS = [(3, 1), (1, 2), (-2, 1), (3, 2)]


def point_src(vals, ints_ok=True):
    if ints_ok and all(d == 1 for _, d in vals):
        return "[" + " ".join(num(n, d) if n >= 0 else f"-{-n}" for n, d in vals) + "]"
    return "[" + " ".join(repr(float(Fraction(n, d))) for n, d in vals) + "]"


CROSS_BODIES = ["(x@0)^(x@1)", "+/x^x", "2^+/x", "(+/x)^(x@0)", "exp(x@0)*sin(x@1)", "+/exp(x)", "+/x*sin(x)", "cos(+/x*x)", "+/x^1.5",
                "(x@1)^(x@0)*0.5", "log((x@0)+(x@1)*(x@1))", "+/sqrt(x)", "(exp(x@0))^(x@1)", "+/{x^x}'x", "(x@0)^2.5-(x@1)^(x@0)",
                # a constant base under an exponent that depends on the variable, next to another term that depends on it
                "(2^x@0)+x@1", "(2^exp(x@0))+x@1", "(x@0)+2^+/x", "(2^x@0)*x@1", "+/x+3^x", "(x@1)-0.5^(x@0)*x@1"]
CROSS_POINTS = ["[2.0 3.0]", "[1.5 0.5]", "[0.5 2.0]"]


def flt(q):
    return q[0] / q[1]


def close(got, exp, tol):
    import numpy as np
    try:
        g = np.asarray(got, dtype=float)
    except Exception:   # noqa
        return False
    e = np.asarray(exp, dtype=float)
    if g.shape != e.shape:
        if g.size == e.size:
            g = g.reshape(e.shape)
        else:
            return False
    return bool(np.all(np.abs(g - e) <= tol * (1 + np.abs(e))))


def tonum(v):
    import numpy as np
    if hasattr(v, "detach"):
        v = v.detach().cpu().numpy()
    if isinstance(v, (list, tuple)):
        return [tonum(x) for x in v]
    if isinstance(v, np.ndarray) and v.dtype == object:
        return [tonum(x) for x in v]
    if isinstance(v, np.ndarray):
        return v.astype(float).tolist()
    return float(v)


def run(tier, seed):
    import logging
    logging.disable(logging.CRITICAL)
    import warnings
    warnings.filterwarnings("ignore")
    ev = Evidence(PROP, tier, seed)
    vd = Verdicts(PROP, ev)
    thorough = tier == "thorough"
    rnd = random.Random(seed)
    cases = []
    deep = 25 if not thorough else 400

    def add(kind, ast, params, **kw):
        if size_ok(ast, params):
            cases.append(dict(id=len(cases) + 1, kind=kind, ast=ast, params=params, **kw))
    for n in (2, 3):
        exprs = scalar_exprs("x", n, rnd, deep)
        pts = POINTS[n]
        for j, e in enumerate(exprs):
            for p in (pts if thorough else [pts[j % len(pts)], pts[(j + 1) % len(pts)]]):
                add("grad", e, [{"name": "x", "vec": True, "vals": [list(q) for q in p]}])
        for j, e in enumerate(vec_exprs("x", rnd, deep // 2)):
            p = pts[j % len(pts)]
            add("jac", e, [{"name": "x", "vec": True, "vals": [list(q) for q in p]}])
            add("jac", {"k": "cat", "a": {"k": "sum", "a": e}, "b": {"k": "idx", "a": e, "i": 0}}, [{"name": "x", "vec": True, "vals": [list(q) for q in p]}])
    # a matrix point (2 x 2), given as a literal and as the transpose of a literal (not contiguous in memory); the function sees
    # its elements through ,/x
    xv = pv("x")
    MATS = [[(1, 1), (2, 1), (3, 1), (4, 1)], [(1, 2), (3, 2), (-2, 1), (1, 4)]]
    for e in [{"k": "sum", "a": bn("mul", xv, xv)}, {"k": "sum", "a": {"k": "pow", "a": xv, "e": 3}}, bn("mul", {"k": "idx", "a": xv, "i": 1}, {"k": "idx", "a": xv, "i": 2}),
              {"k": "sum", "a": bn("div", xv, c(2))}, bn("sub", {"k": "sum", "a": bn("mul", xv, c(3, 2))}, {"k": "pow", "a": {"k": "idx", "a": xv, "i": 3}, "e": 2})]:
        for m in MATS:
            add("grad-matrix", e, [{"name": "x", "vec": True, "vals": [list(q) for q in m]}])
    # scalar parameter
    sx = ps("x")
    for e in [bn("mul", sx, sx), {"k": "pow", "a": sx, "e": 3}, {"k": "pow", "a": sx, "e": -1}, bn("div", c(1), bn("add", sx, c(5))),
              bn("sub", bn("mul", c(3, 2), {"k": "pow", "a": sx, "e": 2}), sx), {"k": "neg", "a": bn("mul", sx, c(1, 2))}]:
        for s in SCALARS:
            add("grad-scalar", e, [{"name": "x", "vec": False, "vals": [list(s)]}])
    # two named parameters: a vector w and a scalar b (loss:>[w b], [w b]∂g)
    w, b = pv("w"), ps("b")
    multi = [{"k": "sum", "a": bn("add", bn("mul", w, w), b)}, {"k": "sum", "a": {"k": "pow", "a": bn("sub", bn("mul", w, c(2)), b), "e": 2}},
             bn("mul", {"k": "sum", "a": w}, b), bn("add", {"k": "sum", "a": {"k": "pow", "a": w, "e": 3}}, {"k": "pow", "a": b, "e": 2}),
             bn("div", {"k": "sum", "a": bn("mul", w, c(1, 2))}, b), {"k": "sum", "a": {"k": "each", "body": bn("mul", EL, EL), "a": bn("add", w, b)}},
             bn("sub", {"k": "idx", "a": w, "i": 0}, bn("mul", b, {"k": "idx", "a": w, "i": 1}))]
    for e in multi:
        for p in POINTS[2][:3]:
            for s in SCALARS[:2]:
                add("multi-grad", e, [{"name": "w", "vec": True, "vals": [list(q) for q in p]}, {"name": "b", "vec": False, "vals": [list(s)]}])
    # the point is the value of a global that the function ALSO reads: f:>a differentiates with respect to f's argument only
    xa, ga = pv("x"), pv("a")
    for e in [{"k": "sum", "a": bn("mul", xa, ga)}, {"k": "sum", "a": bn("add", bn("mul", xa, xa), bn("mul", ga, ga))},
              {"k": "sum", "a": bn("div", xa, ga)}, bn("mul", {"k": "idx", "a": xa, "i": 0}, {"k": "idx", "a": ga, "i": 1})]:
        for p in POINTS[2][:3] + POINTS[3][:2]:
            vals = [list(q) for q in p]
            add("alias-grad", e, [{"name": "x", "vec": True, "vals": vals}, {"name": "a", "vec": True, "vals": vals}])
    for e in [bn("add", bn("mul", w, w), b), bn("mul", w, b), {"k": "pow", "a": bn("sub", w, b), "e": 2}]:
        for p in POINTS[2][:2]:
            add("multi-jac", e, [{"name": "w", "vec": True, "vals": [list(q) for q in p]}, {"name": "b", "vec": False, "vals": [list(SCALARS[1])]}])
    d = stage_spec("grad/KgDual.tla", "grad/KgDualCases.tla")
    cf = os.path.join(d, "cases.json")
    with open(cf, "w") as f:
        json.dump([{"id": x["id"], "ast": x["ast"], "params": x["params"]} for x in cases], f)
    cfg = os.path.join(d, "e.cfg")
    with open(cfg, "w") as f:
        f.write("INIT Init\nNEXT Next\nCHECK_DEADLOCK FALSE\n")
    r = run_tlc(os.path.join(d, "KgDualCases.tla"), cfg, workers=1, extra_env={"CASE_FILE": cf}, timeout=7200)
    ev.add_tlc("KgDualCases.tla: exact value and partial derivatives of every case (dual numbers over the rationals)", r)
    exact = {p["id"]: p for p in r.prints if isinstance(p, dict) and "id" in p}
    if len(exact) != len(cases):
        raise MachineryError(f"TLC evaluated {len(exact)} of {len(cases)} cases")
    common.use_repo()
    from klongpy import KlongInterpreter
    interps = {}
    n_eval = n_smooth = 0
    clusters = {}
    forms_seen = set()
    for x in cases:
        ex = exact[x["id"]]
        if not ex["ok"]:
            continue
        n_smooth += 1
        params = x["params"]
        # expected: per parameter, per component: scalar derivative or vector of derivatives
        exp = []
        for pi, p in enumerate(params):
            comp = ex["d"][pi]
            if comp[0]["vec"]:
                m = len(comp[0]["der"])
                J = [[flt(comp[j]["der"][i]) for j in range(len(comp))] for i in range(m)]      # J[i][j] = d g_i / d p_j
                exp.append(J)
            else:
                exp.append([flt(comp[j]["der"][0]) for j in range(len(comp))])
        progs = []
        if x["kind"] in ("grad", "grad-scalar"):
            body = render(x["ast"], {"x": "x"})
            for ints_ok in (True, False):
                P = point_src(params[0]["vals"], ints_ok) if params[0]["vec"] else \
                    (num(*params[0]["vals"][0]) if ints_ok and params[0]["vals"][0][1] == 1 else repr(float(Fraction(*params[0]["vals"][0]))))
                if P.startswith("-"):
                    P = f"({P})"
                if not ints_ok and P == progs[0][2]:
                    continue
                e0 = exp[0] if params[0]["vec"] else exp[0][0]
                progs.append(("f:>p", f"f::{{{body}}};f:>{P}", P, e0))
                progs.append(("p∇f", f"f::{{{body}}};{P}∇f", P, e0))
                progs.append(("sym∇f", f"f::{{{body}}};pt::{P};pt∇f", P, e0))
        elif x["kind"] == "grad-matrix":
            body = render(x["ast"], {"x": "(,/x)"})
            v = [repr(float(Fraction(*q))) for q in params[0]["vals"]]
            M = f"[[{v[0]} {v[1]}] [{v[2]} {v[3]}]]"
            Mt = f"(+[[{v[0]} {v[2]}] [{v[1]} {v[3]}]])"
            for tag, P in (("literal matrix", M), ("transposed matrix", Mt)):
                progs.append((f"f:>p ({tag})", f"f::{{{body}}};f:>{P}", P, exp[0]))
                progs.append((f"p∇f ({tag})", f"f::{{{body}}};{P}∇f", P, exp[0]))
            lbody = render(x["ast"], {"x": "(,/W)"})
            progs.append(("loss:>[W] (transposed matrix)", f"W::{Mt};loss::{{{lbody}}};*loss:>[W]", Mt, exp[0]))
        elif x["kind"] == "alias-grad":
            body = render(x["ast"], {"x": "x", "a": "a"})
            P = point_src(params[0]["vals"], False)
            progs.append(("f:>a (f reads a)", f"a::{P};f::{{{body}}};f:>a", P, exp[0]))
            progs.append(("a∇f (f reads a)", f"a::{P};f::{{{body}}};a∇f", P, exp[0]))
        elif x["kind"] == "jac":
            body = render(x["ast"], {"x": "x"})
            P = point_src(params[0]["vals"], False)
            progs.append(("p∂g", f"g::{{{body}}};{P}∂g", P, exp[0]))
            progs.append((".jacobian", f"g::{{{body}}};.jacobian(g;{P})", P, exp[0]))
        elif x["kind"] == "multi-grad":
            body = render(x["ast"], {"w": "w", "b": "b"})
            setup = f"w::{point_src(params[0]['vals'], False)};b::{repr(float(Fraction(*params[1]['vals'][0])))};loss::{{{body}}}"
            progs.append(("loss:>[w b]", f"{setup};loss:>[w b]", "", [exp[0], exp[1][0]]))
            progs.append(("loss:>[b w]", f"{setup};loss:>[b w]", "", [exp[1][0], exp[0]]))
        elif x["kind"] == "multi-jac":
            body = render(x["ast"], {"w": "w", "b": "b"})
            setup = f"w::{point_src(params[0]['vals'], False)};b::{repr(float(Fraction(*params[1]['vals'][0])))};g::{{{body}}}"
            progs.append(("[w b]∂g", f"{setup};[w b]∂g", "", [exp[0], [[row[0]] for row in exp[1]] if isinstance(exp[1][0], list) else exp[1]]))
        for form, src, P, want in progs:
            got = {}
            for be in ("numpy", "torch"):
                k = KlongInterpreter(backend=be) if be == "numpy" else KlongInterpreter(backend="torch", device="cpu")
                try:
                    got[be] = tonum(k(src))
                except BaseException as exn:   # noqa
                    got[be] = f"raised {type(exn).__name__}: {str(exn)[:80]}"
                n_eval += 1
                forms_seen.add((form, be))
            multi = x["kind"].startswith("multi")
            if x["kind"] == "alias-grad" and form.startswith("a∇f"):
                # a∇f with a symbol REBINDS a to the perturbed point while f runs, so f's own reads of a move too:
                # the total derivative along x = a is prescribed there
                want = [p + q for p, q in zip(exp[0], exp[1])]
            for be in ("numpy", "torch"):
                ok = not isinstance(got[be], str) and cmp_nested(got[be], want, TOL[be], multi)
                if not ok:
                    top = x["ast"]["k"]
                    case = {"form": form, "backend": be, "kind": x["kind"], "top": top, "src": src, "raised": isinstance(got[be], str),
                            "ops": sorted(ops_of(x["ast"])), "relerr": relerr(got[be], want, multi),
                            "err_over_fscale": err_over_fscale(got[be], want, multi, ex),
                            "what": f"{src} under the {be} backend gives {short(got[be])}; the exact derivative is {short(want)} [{form}]"}
                    clusters.setdefault((form, be, case["raised"], tuple(case["ops"])), []).append(case)
            if not isinstance(got["numpy"], str) and not isinstance(got["torch"], str) and not cmp_nested(got["numpy"], got["torch"], TOL["torch"], multi):
                ok_np = cmp_nested(got["numpy"], want, TOL["numpy"], multi)
                ok_t = cmp_nested(got["torch"], want, TOL["torch"], multi)
                if ok_np and ok_t:       # both within their accuracy yet apart: cannot happen with these tolerances, reported if it does
                    case = {"form": form, "backend": "both", "kind": x["kind"], "top": x["ast"]["k"], "src": src, "raised": False, "ops": sorted(ops_of(x["ast"])),
                            "what": f"{src}: the backends disagree: numpy {short(got['numpy'])}, torch {short(got['torch'])}"}
                    clusters.setdefault((form, "both", False, tuple(case["ops"])), []).append(case)
    # beyond the rational evaluator: exponents that depend on the variable and backend math functions.  No exact oracle: the two
    # independent mechanisms (central differences under numpy, autograd under torch) must agree with each other.
    n_cross = n_both = 0
    for body in CROSS_BODIES:
        for P in CROSS_POINTS:
            src = f'.bkf(["exp" "sin" "cos" "log" "sqrt"]);f::{{{body}}};f:>{P}'
            got = {}
            for be in ("numpy", "torch"):
                k = KlongInterpreter(backend=be) if be == "numpy" else KlongInterpreter(backend="torch", device="cpu")
                try:
                    got[be] = tonum(k(src))
                except BaseException as exn:   # noqa
                    got[be] = f"raised {type(exn).__name__}: {str(exn)[:80]}"
                n_eval += 1
            n_cross += 1
            n_both += (not isinstance(got["numpy"], str)) and (not isinstance(got["torch"], str))
            bad = None
            if isinstance(got["numpy"], str) != isinstance(got["torch"], str):
                bad = "one backend fails"
            elif not isinstance(got["numpy"], str) and not close(got["torch"], got["numpy"], TOL["torch"]):
                bad = "the backends disagree"
            if bad:
                case = {"form": "f:>p (cross-backend)", "backend": "both", "kind": "cross", "top": "src", "src": src, "raised": isinstance(got["torch"], str) or isinstance(got["numpy"], str),
                        "ops": ["transcendental"], "relerr": None,
                        "what": f"{src}: {bad}: numpy (central differences) gives {short(got['numpy'])}, torch (autograd) gives {short(got['torch'])}"}
                clusters.setdefault(("cross", body), []).append(case)
    # ... and the NUMERIC form P∇f over the same bodies: central differences under both backends, which must agree with each other to
    # numeric accuracy (a backend that evaluates part of the function in single precision does not)
    n_crossnum = 0
    for body in CROSS_BODIES:
        for P in CROSS_POINTS:
            src = f'.bkf(["exp" "sin" "cos" "log" "sqrt"]);f::{{{body}}};{P}∇f'
            got = {}
            for be in ("numpy", "torch"):
                k = KlongInterpreter(backend=be) if be == "numpy" else KlongInterpreter(backend="torch", device="cpu")
                try:
                    got[be] = tonum(k(src))
                except BaseException as exn:   # noqa
                    got[be] = f"raised {type(exn).__name__}: {str(exn)[:80]}"
                n_eval += 1
            n_crossnum += 1
            if isinstance(got["numpy"], str) or isinstance(got["torch"], str):
                continue        # (judged by the f:>p comparison above)
            if not close(got["torch"], got["numpy"], 1e-4):
                import numpy as _np
                err = float(_np.max(_np.abs(_np.asarray(got["torch"], dtype=float) - _np.asarray(got["numpy"], dtype=float))))
                case = {"form": "p∇f (cross-backend)", "backend": "torch", "kind": "cross-numeric", "top": "src", "src": src, "raised": False,
                        "ops": ["transcendental"], "relerr": None, "body": body, "err_over_fscale": None,
                        "what": f"{src}: the numeric gradients disagree: numpy gives {short(got['numpy'])}, torch gives {short(got['torch'])} (largest difference {err:.3g})"}
                clusters.setdefault(("cross-numeric", body), []).append(case)
    ev.cov["cross_backend_numeric_cases"] = n_crossnum
    ev.cov["cross_backend_only_cases"] = n_cross
    ev.cov["cross_backend_cases_computed_by_both"] = n_both
    if n_both < 0.8 * n_cross:
        raise MachineryError(f"only {n_both} of {n_cross} cross-backend cases were computed by both backends")
    for key, items in sorted(clusters.items(), key=lambda kv: str(kv[0])):
        items.sort(key=lambda q: len(q["src"]))
        case = dict(items[0])
        case["cluster_size"] = len(items)
        vd.violation(case, matcher=matcher)
    ev.cov["evaluations"] = n_eval
    ev.cov["traces_validated_against_impl"] = n_eval
    ev.cov["distinct_nontrivial"] = n_smooth
    ev.cov["cases"] = len(cases)
    ev.cov["cases_inside_smooth_domain"] = n_smooth
    ev.cov["forms_covered"] = sorted(f"{a} [{b}]" for a, b in forms_seen)
    ev.cov["mismatching"] = sum(len(v) for v in clusters.values())
    ev.cov["rule"] = ("expression trees over + - * %, integer powers (2, 3, -1), negation, +/ reductions, indexing, each, vectors built from "
                      "scalars: all trees of the depth-1/2 families and seeded deeper ones, x points of dimension 2 and 3 (integer and real), "
                      "a scalar parameter, and two named parameters (vector w, scalar b); forms f:>p, p∇f, sym∇f (a variable named by its symbol), p∂g, .jacobian, "
                      "loss:>[w b], loss:>[b w], [w b]∂g under the numpy (numeric) and torch (autograd) backends; non-trivial = cases inside "
                      "the smooth domain (no zero denominators)")
    ev.sample({"source": "f::{" + render(cases[0]["ast"], {"x": "x"}) + "}", "exact_partials": exact[cases[0]["id"]]["d"] if exact[cases[0]["id"]]["ok"] else None})
    ev.cov["checker_cmd"] = "tlc KgDualCases.tla ; gradient forms under both backends"
    ev.assumptions += [f"accuracy: numeric |got - exact| <= {TOL['numpy']} (1 + |exact|); autograd (float32) <= {TOL['torch']} (1 + |exact|)",
                       "transcendental backend math functions (exp, sin, ...) are not in the rational dual evaluator: not covered",
                       "a Fraction-based size guard drops cases whose intermediate values exceed TLC's integer range (magnitudes only)"]
    return vd.finish()


def ops_of(e):
    out = {e["k"]} if e["k"] not in ("c", "pv", "ps", "el") else set()
    for key in ("a", "b", "body"):
        if isinstance(e.get(key), dict):
            out |= ops_of(e[key])
    return out


def short(v):
    s = json.dumps(v) if not isinstance(v, str) else v
    return s if len(s) < 160 else s[:160] + "..."


def cmp_nested(got, want, tol, multi=False):
    """multi-parameter results are lists (one entry per parameter) of arrays of different shapes"""
    if multi:
        if not isinstance(got, list) or len(got) != len(want):
            return False
        return all(close(g, w, tol) for g, w in zip(got, want))
    return close(got, want, tol)


def relerr(got, want, multi):
    import numpy as np
    if isinstance(got, str):
        return None
    try:
        pairs = list(zip(got, want)) if multi else [(got, want)]
        worst = 0.0
        for g, w in pairs:
            g, w = np.asarray(g, dtype=float).ravel(), np.asarray(w, dtype=float).ravel()
            if g.size != w.size:
                return None
            worst = max(worst, float(np.max(np.abs(g - w) / (1 + np.abs(w)))) if g.size else 0.0)
        return worst
    except Exception:   # noqa
        return None


def err_over_fscale(got, want, multi, ex):
    """largest absolute error divided by (1 + |f(p)|): the noise of a finite difference taken in single precision scales with the
    magnitude of the FUNCTION VALUE, not of the derivative"""
    import numpy as np
    if isinstance(got, str) or multi:
        return None
    try:
        fvals = [abs(flt(v)) for comp in ex["d"] for c_ in comp for v in c_["val"]]
        g, w = np.asarray(got, dtype=float).ravel(), np.asarray(want, dtype=float).ravel()
        if g.size != w.size:
            return None
        return float(np.max(np.abs(g - w))) / (1.0 + max(fvals or [0.0]))
    except Exception:   # noqa
        return None


def matcher(f, case):
    m = f.get("match", {})
    if "forms" in m and case["form"].split(" (")[0] not in m["forms"]:
        return False
    if "backends" in m and case["backend"] not in m["backends"]:
        return False
    if "raised" in m and bool(case["raised"]) != bool(m["raised"]):
        return False
    if "ops_any" in m and not (set(m["ops_any"]) & set(case["ops"])):
        return False
    if "kinds" in m and case["kind"] not in m["kinds"]:
        return False
    if "not_kinds" in m and case["kind"] in m["not_kinds"]:
        return False
    if "bodies" in m and case.get("body") not in m["bodies"]:
        return False
    if "max_relerr" in m and (case.get("relerr") is None or case["relerr"] > m["max_relerr"]):
        return False
    if "max_err_over_fscale" in m and (case.get("err_over_fscale") is None or case["err_over_fscale"] > m["max_err_over_fscale"]):
        return False
    return True


def replay(path):
    with open(path) as f:
        case = json.load(f)["case"]
    print(json.dumps(case, indent=1)[:3000])
    return 0
