"""C15 - timers tick once per interval until stopped, and stop for good.

spec/net/TimerAbs.tla   the tick rule as a monitor (the property)
spec/net/Timer.tla      implementation-shaped model of sys_fn_timer.py on an asyncio loop
spec/net/TimerTrace.tla trace validation of logs recorded from the real code

1. TLC checks Timer.tla (Variant="fixed" = the code in the tree) exhaustively: Good, TypeOK.
2. TLC emits behaviours of Timer.tla (exhaustive small tree + -simulate); each is replayed through the
   real eval_sys_fn_timer/_call_periodic/.timerc on a virtual-time asyncio loop for several real
   (interval, start offset) instantiations; the recorded events must equal the model's prediction
   (spec drift / violation) ...
3. ... and every recorded log (including a flush phase after the behaviour) is validated by TLC against
   the monitor (TimerTrace.tla): the verdict of record.
"""
import json
import os
import random
import sys

import common
from common import Evidence, Verdicts, run_tlc, stage_spec, MachineryError

PROP = "C15"


def mc_module(d, *, KA, KB, maxT, maxTicks, maxCancels, durations, variant, floaterr, record, emitlen=0):
    timers = ["A"] + (["B"] if KB is not None else [])
    with open(os.path.join(d, "MCTimer.tla"), "w") as f:
        f.write("---- MODULE MCTimer ----\nEXTENDS Timer\n")
        f.write('MCKOf == [t \\in Timers |-> IF t = "A" THEN %d ELSE %d]\n' % (KA, KB if KB is not None else 0))
        f.write("MCDur == {%s}\n" % ", ".join(str(x) for x in durations))
        f.write("EmitNow == (RecordHist /\\ Len(hist) > 0 /\\ (Len(hist) >= %d \\/ Terminal)) => PrintT(ToJson(hist))\n" % emitlen)
        f.write("HistCap == Len(hist) <= %d\n" % emitlen)
        f.write("====\n")
    cfg = os.path.join(d, f"mc_{variant}_{int(record)}.cfg")
    lines = ["INIT Init", "NEXT Next", "CONSTANTS",
             "  Timers = {%s}" % ", ".join('"%s"' % t for t in timers),
             "  KOf <- MCKOf", f"  MaxT = {maxT}", f"  MaxTicks = {maxTicks}", f"  MaxCancels = {maxCancels}",
             "  Durations <- MCDur", f'  Variant = "{variant}"',
             f"  FloatErr = {'TRUE' if floaterr else 'FALSE'}",
             f"  RecordHist = {'TRUE' if record else 'FALSE'}",
             "INVARIANT Good", "INVARIANT TypeOK", "CHECK_DEADLOCK FALSE"]
    if record:
        lines += ["INVARIANT EmitNow", "CONSTRAINT HistCap"]
    with open(cfg, "w") as f:
        f.write("\n".join(lines) + "\n")
    return os.path.join(d, "MCTimer.tla"), cfg


# ----------------------------------------------------------------------------- real-code driver

class Driver:
    """Replays one behaviour of Timer.tla through the real timer code on a virtual loop."""

    def __init__(self, beh, KA, KB, q, t0, delta=2.5e-10, resolution=1e-9):
        common.use_repo()
        from vloop import VLoop
        from klongpy import KlongInterpreter
        self.beh = beh
        self.K = {"A": KA, "B": KB}
        self.q, self.t0, self.delta = q, t0, delta
        self.loop = VLoop(start=t0, resolution=resolution)
        self.klong = KlongInterpreter()
        self.klong['.system'] = {'ioloop': self.loop, 'klongloop': self.loop}
        self.T = 0                       # current half-step
        self.events = []                 # real log
        self.tickno = {"A": 0, "B": 0}
        self.unpredicted = 0
        self.ver = 0
        self.klong['tick'] = lambda x, y: self._callback(x, int(y))
        # scripts: (tm, k) -> list of entries (cbcancel / cbredef / cbreturn)
        self.scripts = {}
        cnt = {"A": 0, "B": 0}
        cur = None
        for ent in beh:
            a = ent["env"]["a"]
            if a == "tick":
                cnt[ent["env"]["tm"]] += 1
                cur = (ent["env"]["tm"], cnt[ent["env"]["tm"]])
                self.scripts[cur] = []
            elif a in ("cbcancel", "cbredef", "cbreturn"):
                self.scripts[cur].append(ent["env"])

    def ftime(self, T):
        n = (T + 1) // 2
        t = self.t0 + n * self.q
        return t - self.delta if T % 2 else t

    def set_T(self, T):
        self.T = T
        self.loop.set_time(self.ftime(T))

    def define_cb(self):
        for tm in ("A", "B"):
            self.klong(f'cb{tm}::{{tick("{tm}";{self.ver})}}')

    def _cancel(self, tm):
        r = self.klong(f'.timerc(th{tm})')
        self.events.append({"ev": "cancel", "tm": tm, "at": self.T, "res": int(r)})

    def _callback(self, tm, ver):
        self.tickno[tm] += 1
        self.events.append({"ev": "tick", "tm": tm, "at": self.T, "ver": ver})
        script = self.scripts.get((tm, self.tickno[tm]))
        if script is None:
            self.unpredicted += 1
            script = [{"a": "cbreturn", "tm": tm, "d": 0, "r": 1}]
        r = 1
        d = 0
        for s in script:
            if s["a"] == "cbcancel":
                self._cancel(s["target"])
            elif s["a"] == "cbredef":
                self.ver += 1
                self.define_cb()
                self.events.append({"ev": "redef", "at": self.T})
            elif s["a"] == "cbreturn":
                d, r = s["d"], s["r"]
        if not any(s["a"] == "cbreturn" for s in script):
            d, r = 0, 1     # behaviour was cut inside the callback: finish it plainly
        self.set_T(self.T + d)
        self.events.append({"ev": "ret", "tm": tm, "at": self.T, "r": r})
        if r == 2:
            raise RuntimeError("scripted callback failure")
        return r

    def due(self):
        nd = self.loop.next_deadline()
        return self.loop.has_ready() or (nd is not None and nd < self.loop.time() + self.loop._clock_resolution)

    def settle(self, limit=4):
        n = 0
        while self.due() and n < limit:
            self.loop.step()
            n += 1

    def iterate(self):
        """One loop iteration; afterwards everything that was due when it began has been served."""
        t0 = self.T
        self.loop.step()
        self.events.append({"ev": "idle", "at": t0})

    def run(self):
        self.define_cb()
        for ent in self.beh:
            e = ent["env"]
            a = e["a"]
            if a == "start":
                tm = e["tm"]
                interval = int(round(self.K[tm] * self.q))
                self.klong(f'th{tm}::.timer("{tm}";{interval};cb{tm})')
                self.events.append({"ev": "start", "tm": tm, "at": self.T, "K": self.K[tm]})
            elif a == "advance":
                if not self.due():
                    self.events.append({"ev": "idle", "at": self.T})
                self.set_T(e["to"])
            elif a == "iter":
                self.iterate()
            elif a == "extcancel":
                self._cancel(e["tm"])
        driven = len(self.events)
        # flush: let the loop run on for a while with plain callbacks, so that a timer that should be
        # dead (or alive) shows it
        kmax = max(self.K.values())
        base = (self.T + 1) // 2
        for j in range(0, 2 * max(kmax, 1) + 2):
            if j > 0:
                self.set_T(2 * (base + j))
            n = 0
            while self.due() and n < 3:
                self.iterate()
                n += 1
            if not self.due():
                self.events.append({"ev": "idle", "at": self.T})
        return driven


def predicted_events(beh):
    out = []
    for ent in beh:
        out.extend(ent["evs"])
    return out


def per_timer(evs, keep_idle=False):
    """Project an event list to comparable per-timer sequences (idle events excluded)."""
    seqs = {}
    for e in evs:
        if e["ev"] in ("idle",):
            continue
        key = e.get("tm", "*")
        item = {k: e[k] for k in sorted(e) if k != "tm"}
        seqs.setdefault(key, []).append(item)
    return seqs


CONFIGS_QUICK = [
    # (KA, KB, q, offsets) ; intervals = K*q seconds
    (2, 3, 1.0, [0.0, 0.1, 12345.678901]),
    (1, 0, 1.0, [0.1, 1e6 + 0.3]),
    (1, 2, 5.0, [0.3]),
]


def run(tier, seed):
    ev = Evidence(PROP, tier, seed)
    vd = Verdicts(PROP, ev)
    rnd = random.Random(seed)
    d = stage_spec("net/TimerAbs.tla", "net/Timer.tla", "net/TimerTrace.tla")
    thorough = tier == "thorough"

    # 1. design level ---------------------------------------------------------------------------
    design = [dict(KA=2, KB=3, maxT=12, maxTicks=3, maxCancels=2, durations=[0, 1, 4, 9]),
              dict(KA=1, KB=0, maxT=6, maxTicks=4, maxCancels=2, durations=[0, 1, 2, 5])]
    if thorough:
        design = [dict(KA=2, KB=3, maxT=14, maxTicks=4, maxCancels=2, durations=[0, 1, 2, 4, 6, 9]),
                  dict(KA=1, KB=0, maxT=8, maxTicks=5, maxCancels=2, durations=[0, 1, 2, 5]),
                  dict(KA=1, KB=2, maxT=10, maxTicks=4, maxCancels=2, durations=[0, 1, 2, 3, 5])]
    for k, c in enumerate(design):
        mod, cfg = mc_module(d, variant="fixed", floaterr=True, record=False, **c)
        r = run_tlc(mod, cfg, workers=16, coverage=True, timeout=3000)
        ev.add_tlc(f"Timer.tla design check #{k} {c}", r, "invariants Good (tick rule) and TypeOK")
        if r.violated:
            vd.violation({"what": f"design-level: Timer.tla (model of the code in the tree) violates {r.violated}",
                          "config": c, "counterexample": r.cex[:6000]})
        if r.coverage:
            for act in ("Start", "Advance", "IterBegin", "IterEnd", "Tick", "CbCancel", "CbRedef", "CbReturn", "ExtCancel"):
                if r.coverage.get(act, (0, 0))[1] == 0:
                    raise MachineryError(f"vacuity: action {act} never taken in design check {c}")

    # 2. behaviours -------------------------------------------------------------------------------
    behs = []   # (config, behaviour)
    emit = [dict(KA=2, KB=3, maxT=10, maxTicks=3, maxCancels=1, durations=[0, 1, 4, 9], emitlen=4)]
    nsim = 1000 if not thorough else 12000
    if thorough:
        emit = [dict(KA=2, KB=3, maxT=10, maxTicks=3, maxCancels=2, durations=[0, 1, 4, 9], emitlen=6)]
    for c in emit:
        mod, cfg = mc_module(d, variant="fixed", floaterr=True, record=True, **c)
        r = run_tlc(mod, cfg, workers=1, timeout=3000)
        ev.add_tlc(f"Timer.tla behaviour tree {c}", r, "exhaustive tree of behaviours with history, emitted for replay")
        for b in r.prints:
            behs.append(((c["KA"], c["KB"]), b))
    ntree = len(behs)
    sims = [dict(KA=2, KB=3, maxT=16, maxTicks=6, maxCancels=3, durations=[0, 1, 2, 4, 6, 9], emitlen=22),
            dict(KA=1, KB=0, maxT=10, maxTicks=8, maxCancels=3, durations=[0, 1, 2, 5], emitlen=24),
            dict(KA=1, KB=2, maxT=12, maxTicks=6, maxCancels=3, durations=[0, 1, 2, 3, 5], emitlen=22)]
    for c in sims:
        mod, cfg = mc_module(d, variant="fixed", floaterr=True, record=True, **c)
        r = run_tlc(mod, cfg, workers=1, simulate=f"num={nsim}", depth=40, seed=seed + 17, timeout=3000)
        ev.add_tlc(f"Timer.tla simulate {c}", r, f"-simulate num={nsim}")
        for b in r.prints:
            behs.append(((c["KA"], c["KB"]), b))
    # deduplicate
    seen = set()
    uniq = []
    for kk, b in behs:
        h = common.jhash([kk, b])
        if h not in seen:
            seen.add(h)
            uniq.append((kk, b))
    behs = uniq
    if not behs:
        raise MachineryError("no behaviours emitted by TLC")
    if thorough and len(behs) > 60000:          # the depth-6 tree has ~10^5..10^6 behaviours: a seeded sample of it is replayed
        tree, rest = behs[:ntree], behs[ntree:]
        rnd.shuffle(tree)
        tree = tree[:max(0, 60000 - len(rest))]
        ev.cov["thorough_tree_behaviours_sampled"] = [len(tree), ntree]
        behs = tree + rest
        ntree = len(tree)

    # 3. replay + record ------------------------------------------------------------------------------
    # (quantum in seconds, start offset, loop clock resolution, how early "within clock resolution" is)
    FINE, COARSE = (1e-9, 2.5e-10), (1e-3, 4e-4)       # Linux-like monotonic clock / a coarse (Windows-like) clock
    inst = {(2, 3): [(1.0, 0.0) + FINE, (1.0, 0.1) + COARSE, (1.0, 12345.678901) + FINE],
            (1, 0): [(1.0, 0.1) + FINE, (2.0, 1e6 + 0.3) + COARSE, (5.0, 0.7) + FINE],
            (1, 2): [(1.0, 0.3) + COARSE, (5.0, 0.1) + FINE]}
    traces = []
    meta = {}
    nreplay = 0
    nontrivial = set()
    drift = []
    treeset = set(common.jhash([kk, b]) for kk, b in behs[:ntree])
    for bi, ((ka, kb), b) in enumerate(behs):
        choices = inst[(ka, kb)]
        if not thorough and common.jhash([(ka, kb), b]) in treeset:
            choices = [choices[bi % len(choices)]]       # the exhaustive tree: one instantiation each, rotating
        for (q, t0, res, early) in choices:
            drv = Driver(b, ka, kb, q, t0, delta=early, resolution=res)
            try:
                driven = drv.run()
            except Exception as e:   # the real code must not fail under any behaviour
                vd.violation({"what": f"real timer code raised {type(e).__name__}: {e}", "behaviour": b,
                              "K": [ka, kb], "q": q, "t0": t0})
                continue
            nreplay += 1
            tid = len(traces)
            traces.append({"tid": tid, "timers": ["A", "B"], "events": drv.events})
            meta[tid] = (ka, kb, q, t0, b, res, early)
            # (a) prediction of the model vs. the real events of the driven part
            pred = per_timer(predicted_events(b))
            real = per_timer(drv.events[:driven])
            for tm in set(pred) | set(real):
                p, rl = pred.get(tm, []), real.get(tm, [])
                # the behaviour may have been cut inside a callback: compare the common prefix only
                # when the model's sequence is a prefix of the real one
                if rl[:len(p)] != p:
                    drift.append({"timer": tm, "predicted": p, "real": rl, "behaviour": [e["env"] for e in b],
                                  "K": [ka, kb], "q": q, "t0": t0})
                    break
            if any(e["env"]["a"] in ("cbcancel", "extcancel") for e in b) or \
               any(e["env"]["a"] == "cbreturn" and (e["env"]["d"] > 0 or e["env"]["r"] != 1) for e in b):
                nontrivial.add(common.jhash(b))
    ev.cov["evaluations"] = nreplay
    ev.cov["distinct_nontrivial"] = len(nontrivial)
    ev.cov["rule"] = ("behaviours of Timer.tla emitted by TLC (exhaustive history tree + -simulate), each replayed "
                      "through the real .timer/.timerc code on a virtual-time asyncio loop for several real "
                      "(interval, start offset) instantiations; non-trivial = distinct behaviours containing a "
                      "cancellation, a slow callback, or a callback that returns false or raises")

    # 4. trace validation by TLC ----------------------------------------------------------------------
    tf = os.path.join(d, "traces.json")
    with open(tf, "w") as f:
        json.dump(traces, f)
    cfg = os.path.join(d, "trace.cfg")
    with open(cfg, "w") as f:
        f.write("INIT Init\nNEXT Next\nCHECK_DEADLOCK FALSE\n")
    verdicts = {}
    CH = 20000                              # JsonDeserialize of one huge file exhausts TLC's heap: validate in chunks
    for lo in range(0, len(traces), CH):
        with open(tf, "w") as f:
            json.dump(traces[lo:lo + CH], f)
        r = run_tlc(os.path.join(d, "TimerTrace.tla"), cfg, workers=1, extra_env={"TRACE_FILE": tf}, timeout=3000, java_opts=["-Xss256m"])
        ev.add_tlc(f"TimerTrace.tla (logs {lo + 1}..{min(lo + CH, len(traces))})", r, "one state per recorded log; monitor folded over every event")
        verdicts.update({v["tid"]: v for v in r.prints if isinstance(v, dict) and "tid" in v})
    if len(verdicts) != len(traces):
        raise MachineryError(f"trace validation returned {len(verdicts)} verdicts for {len(traces)} traces")
    ev.cov["traces_validated_against_impl"] = len(traces)
    bad = [v for v in verdicts.values() if v["bad"] != "ok"]
    for v in bad:
        ka, kb, q, t0, b, res, early = meta[v["tid"]]
        vd.violation({"what": f"recorded log violates the tick rule: {v['bad']} at event {v['at']} "
                              f"(intervals {ka}*{q}s/{kb}*{q}s, start offset {t0})",
                      "clause": v["bad"], "events": traces[v["tid"]]["events"], "behaviour": b,
                      "K": [ka, kb], "q": q, "t0": t0, "res": res, "early": early})
    for t in traces[:3]:
        ev.sample({"behaviour": [e["env"] for e in meta[t["tid"]][4]], "recorded_events": t["events"][:12]})
    ev.cov["behaviours"] = len(behs)
    ev.cov["spec_drift"] = len(drift)
    ev.cov["spec_drift_samples"] = drift[:2]
    if drift:
        print(f"SPEC-DRIFT property={PROP}: {len(drift)} of {nreplay} replays differ from Timer.tla's prediction "
              f"(not a verdict; the verdict is the monitor's)")
    ev.cov["checker_cmd"] = "tlc Timer.tla (MCTimer) ; tlc TimerTrace.tla"
    ev.assumptions += ["asyncio's own scheduling code runs unmodified on a virtual clock (harness/vloop.py)",
                       "callbacks and time are scripted by the harness; real wall-clock timing is not explored",
                       "bounds: 2 timers, <= 8 callback invocations, horizon <= 9 intervals"]
    return vd.finish()


def replay(path):
    with open(path) as f:
        case = json.load(f)["case"]
    if "behaviour" not in case:
        print(json.dumps(case, indent=1)[:4000])
        return 1
    ka, kb = case["K"]
    drv = Driver(case["behaviour"], ka, kb, case["q"], case["t0"], delta=case.get("early", 2.5e-10), resolution=case.get("res", 1e-9))
    drv.run()
    for e in drv.events:
        print(e)
    return 0
