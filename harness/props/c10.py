"""C10 - a dictionary behaves as a finite map under any sequence of operations (and is shared by its aliases).

spec/kg/DictAbs.tla    the property as a monitor: heap of dictionaries (insertion-ordered finite maps), variables holding references
spec/kg/Dict.tla       generator of operation histories with the observations DictAbs prescribes
spec/kg/DictTrace.tla  validation of recorded histories

TLC enumerates operation histories (create from a literal, create from a literal inside a function, alias, add/overwrite from
either side, find, remove, size, each) over keys of every hashable kind - integers (literal and computed), reals, characters,
strings and symbols, including a character, a string and a symbol with the SAME text - checks that the generator's own
expectations satisfy the monitor, and emits them.  Every history is executed statement by statement by a KlongInterpreter;
the observed results (found value / :undefined, size, visited pairs) are recorded and judged by TLC against DictAbs.
"""
import json
import os
import random

import common
from common import Evidence, Verdicts, run_tlc, stage_spec, MachineryError

PROP = "C10"
KEYS_SMALL = ["i:1", "s:c", "y:c", "i:0"]
KEYS_ALL = ["i:1", "i:3", "i:-2", "i:0", "r:2.5", "s:s1", "s:c", "c:c", "y:c", "y:ky", "s:"]
VALS_SMALL = ["i:10", "s:v"]
VALS_ALL = ["i:10", "s:v", "l:[1 2]", "y:w", "r:0.5", "i:0"]
LIT = [["i:1", "i:10"], ["s:s1", "s:v"]]


def ksrc(t, computed=False):
    kind, body = t[0], t[2:]
    if kind == "i":
        n = int(body)
        if computed:
            return f"(0+{n})"
        return str(n) if n >= 0 else f"(-{-n})"
    if kind == "r":
        return body
    if kind == "s":
        return '"' + body + '"'
    if kind == "y":
        return ":" + body
    if kind == "c":
        return "0c" + body
    if kind == "l":
        return body
    raise MachineryError(f"unknown text {t}")


def txt(v):
    import numpy as np
    from klongpy.core import KGSym, KGChar
    from klongpy.types import KGUndefined
    if isinstance(v, KGUndefined):
        return "undef"
    if isinstance(v, KGSym):
        return "y:" + str(v)
    if isinstance(v, KGChar):
        return "c:" + str(v)
    if isinstance(v, str):
        return "s:" + v
    if isinstance(v, (bool, np.bool_)):
        return "i:%d" % int(v)
    if isinstance(v, (int, np.integer)):
        return "i:%d" % int(v)
    if isinstance(v, (float, np.floating)):
        return "r:%g" % float(v)
    if isinstance(v, (list, tuple, np.ndarray)):
        return "l:[" + " ".join(txt(x)[2:] for x in v) + "]"
    return "?:" + type(v).__name__


def source(e, n):
    """Klong source of event e (n = its position: computed integer keys alternate with literal ones)."""
    op = e["op"]
    if op == "new":
        return f"{e['var']}:::{{{' '.join('[' + ksrc(k) + ' ' + ksrc(v) + ']' for k, v in e['pairs'])}}}"
    if op == "newf":
        return f"{e['var']}::mk()"
    if op == "alias":
        return f"{e['var']}::{e['src']}"
    if op == "add":
        pair = f"{ksrc(e['k'], computed=(n % 2 == 1))},,{ksrc(e['v'])}"
        return f"{e['var']},{pair}" if e["side"] == "right" else f"({pair}),{e['var']}"
    if op == "addbad":
        return f"{e['var']},,{ksrc(e['k'])}"
    if op == "find":
        return f"{e['var']}?{ksrc(e['k'], computed=(n % 2 == 1))}"
    if op == "remove":
        return f"{ksrc(e['k'])}_{e['var']}"
    if op == "size":
        return f"#{e['var']}"
    if op == "each":
        return f"{{x}}'{e['var']}"
    raise MachineryError(f"unknown op {op}")


def execute(hist):
    from klongpy import KlongInterpreter
    k = KlongInterpreter()
    k("mk::{:{%s}}" % " ".join("[" + ksrc(a) + " " + ksrc(b) + "]" for a, b in LIT))
    events, srcs = [], []
    for n, e in enumerate(hist):
        src = source(e, n)
        srcs.append(src)
        ev = dict(e)
        try:
            r = k(src)
            err = None
        except BaseException as ex:   # noqa
            r, err = None, f"{type(ex).__name__}: {str(ex)[:80]}"
        if e["op"] == "find":
            ev["obs"] = txt(r) if err is None else "raised " + err
        elif e["op"] == "size":
            ev["obs"] = int(r) if err is None and txt(r).startswith("i:") else -1
        elif e["op"] == "each":
            try:
                ev["obs"] = [[txt(p[0]), txt(p[1])] for p in r] if err is None else [["raised", err]]
                # the LIST of pairs that Each returns holds reals only as soon as one number in it is real (the numeric
                # homogenisation recorded under C01): whole reals are read as the integers the model expects in that place
                want = {(a, b) for a, b in e.get("obs", [])}
                ints = {t_ for pair in want for t_ in pair if t_.startswith("i:")}

                def back(t_):
                    if t_.startswith("r:") and "i:" + t_[2:] in ints and t_ not in {q for pair in want for q in pair}:
                        return "i:" + t_[2:]
                    return t_
                if getattr(r, "dtype", None) is not None and r.dtype.kind == "f":
                    ev["obs"] = [[back(a), back(b)] for a, b in ev["obs"]]
            except Exception:   # noqa
                ev["obs"] = [["not-a-list-of-pairs", txt(r)]]
        events.append(ev)
    return events, srcs


def run(tier, seed):
    import logging
    logging.disable(logging.CRITICAL)
    ev = Evidence(PROP, tier, seed)
    vd = Verdicts(PROP, ev)
    thorough = tier == "thorough"
    d = stage_spec("kg/DictAbs.tla", "kg/Dict.tla", "kg/DictTrace.tla")
    mod = os.path.join(d, "Dict.tla")

    def cfg(name, keys, vals, maxops, focus=False):
        p = os.path.join(d, name)
        q = lambda xs: "{" + ", ".join('"%s"' % x for x in xs) + "}"   # noqa
        with open(p, "w") as f:
            f.write("INIT Init\nNEXT Next\nCONSTANTS\n  Vars = {\"p\", \"r\"}\n  Keys = %s\n  Vals = %s\n  MaxOps = %d\n  NoPair = %s\n  Focus = %s\n"
                    "INVARIANT Good\nINVARIANT Emit\nCHECK_DEADLOCK FALSE\n" % (
                        q(keys), q(vals), maxops,
                        q([f"{k}|{v}" for k in keys for v in vals if k[0] in "ir" and v[0] in "ir" and k[0] != v[0]] or ["-"]), "TRUE" if focus else "FALSE"))
        return p
    hists = []
    depth = 3 if not thorough else 4
    r1 = run_tlc(mod, cfg("tree.cfg", KEYS_SMALL if not thorough else KEYS_SMALL[:3], VALS_SMALL, depth), workers=1, timeout=7200)
    ev.add_tlc(f"Dict.tla: all histories of {depth} operations (4 keys incl. 0 and a string/symbol of the same text, 2 values)", r1,
               "invariant Good: the generator's expectations satisfy DictAbs")
    if r1.violated:
        vd.violation({"what": f"design-level: Dict.tla violates {r1.violated}", "counterexample": r1.cex[:4000]})
    tree = [p for p in r1.prints if isinstance(p, list)]
    rnd = random.Random(seed)
    rnd.shuffle(tree)
    hists += tree[:(14000 if not thorough else 60000)]
    nsim = 2500 if not thorough else 30000
    r2 = run_tlc(mod, cfg("sim.cfg", KEYS_ALL, VALS_ALL, 9, focus=True), workers=1, simulate=f"num={nsim // 2}", depth=10, seed=seed + 5, timeout=7200)
    ev.add_tlc(f"Dict.tla -simulate num={nsim // 2}, histories of 9 operations, each on two keys and two values drawn from 11 keys of every kind and 6 values "
               f"({nsim} of the emitted histories replayed)", r2)
    if r2.violated:
        vd.violation({"what": f"design-level: Dict.tla violates {r2.violated}", "counterexample": r2.cex[:4000]})
    sims = [p for p in r2.prints if isinstance(p, list)]
    rnd.shuffle(sims)
    hists += sims[:nsim]
    if len(hists) < 500:
        raise MachineryError(f"only {len(hists)} histories emitted")
    common.use_repo()
    traces, meta = [], {}
    for h in hists:
        events, srcs = execute(h)
        tid = len(traces)
        traces.append({"tid": tid, "vars": ["p", "r"], "events": events, "coll": collisions(h)})
        meta[tid] = (h, srcs)
    tf = os.path.join(d, "dict.json")
    with open(tf, "w") as f:
        json.dump(traces, f)
    cfgt = os.path.join(d, "trace.cfg")
    with open(cfgt, "w") as f:
        f.write("INIT Init\nNEXT Next\nCHECK_DEADLOCK FALSE\n")
    rt = run_tlc(os.path.join(d, "DictTrace.tla"), cfgt, workers=1, extra_env={"TRACE_FILE": tf}, timeout=7200)
    ev.add_tlc("DictTrace.tla", rt, "one state per recorded history")
    verdicts = {v["tid"]: v for v in rt.prints if isinstance(v, dict) and "tid" in v}
    if len(verdicts) != len(traces):
        raise MachineryError(f"trace validation returned {len(verdicts)} verdicts for {len(traces)} histories")
    clusters = {}
    for tid, v in verdicts.items():
        if v["bad"] == "ok":
            continue
        h, srcs = meta[tid]
        e = traces[tid]["events"][v["at"] - 1]
        want = h[v["at"] - 1].get("obs")
        case = {"clause": v["bad"], "op": e["op"], "key": e.get("k"), "history": srcs[:v["at"]],
                "kinds_involved": sorted({x.get("k", "")[:1] for x in h[:v["at"]] if x.get("k")}),
                "explained_by_same_text_collisions": bool(v["explained"]),
                "what": f"history {srcs[:v['at']]}: `{srcs[v['at'] - 1]}` observed {e.get('obs')}, a finite map gives {want} [{v['bad']}]"}
        key = (v["bad"], e["op"], case["explained_by_same_text_collisions"])
        clusters.setdefault(key, []).append(case)
    for key, items in sorted(clusters.items(), key=lambda kv: str(kv[0])):
        items.sort(key=lambda c: len(c["history"]))
        case = dict(items[0])
        case["cluster_size"] = len(items)
        vd.violation(case, matcher=matcher)
    ev.cov["traces_validated_against_impl"] = len(traces)
    ev.cov["evaluations"] = sum(len(t["events"]) for t in traces)
    ev.cov["distinct_nontrivial"] = sum(1 for t in traces if len({e["op"] for e in t["events"]}) >= 3)
    ev.cov["mismatching_histories"] = sum(len(v) for v in clusters.values())
    ev.cov["rule"] = (f"all histories of {depth} operations over 4 keys x 2 values x 2 variables (exhaustive tree of Dict.tla) and seeded "
                      f"-simulate histories of 9 operations over 11 keys (integer literal/computed/negative, real, string, empty string, "
                      f"character, symbol; string = character = symbol text) and 6 values; non-trivial = >= 3 different operations")
    ev.sample({"history": meta[0][1], "events": traces[0]["events"]})
    ev.cov["checker_cmd"] = "tlc Dict.tla ; tlc DictTrace.tla"
    ev.assumptions += ["the list returned by f'd holds reals only when any number in it is real (C01's numeric homogenisation): whole "
                       "reals are read as the integers expected at that place",
                       "an integer and a real of the same value (1 and 1.0) as keys are not enumerated: the reference is silent",
                       "d@k (index) is not enumerated: the reference defines @ for lists, strings and functions only",
                       "dictionaries as VALUES of dictionaries and function values are not in the value universe"]
    return vd.finish()


def collisions(h):
    """The key pairs (stored, queried) that the listed finding F-C10-same-text-keys says are taken for the same key: KGChar and
    KGSym are subclasses of str, so a stored string or character equals a queried string/character of the same text, and a
    stored character equals a queried symbol of the same text (a stored symbol equals nothing but the same symbol)."""
    keys = {x["k"] for x in h if x.get("k")} | {p[0] for x in h if x["op"] in ("new", "newf") for p in x["pairs"]}
    out = []
    for a in keys:
        for b in keys:
            if a != b and a[2:] == b[2:] and (a[0], b[0]) in (("s", "c"), ("c", "s"), ("c", "y")):
                out.append([a, b])
    return sorted(out)


def matcher(f, case):
    m = f.get("match", {})
    if "explained_by_same_text_collisions" in m and bool(case["explained_by_same_text_collisions"]) != bool(m["explained_by_same_text_collisions"]):
        return False
    return True


def replay(path):
    with open(path) as f:
        case = json.load(f)["case"]
    common.use_repo()
    from klongpy import KlongInterpreter
    k = KlongInterpreter()
    k("mk::{:{%s}}" % " ".join("[" + ksrc(a) + " " + ksrc(b) + "]" for a, b in LIT))
    for s in case["history"]:
        try:
            print(s, "->", repr(k(s)))
        except Exception as e:   # noqa
            print(s, "EXC", e)
    print(case["what"])
    return 0
