"""C16 - the file-backed key-value and table stores are persistent dictionaries.

spec/store/FileCache.tla (one client = sequential configuration, with the `reo` (reopen) operation),
spec/store/CacheAbs.tla (dictionary/register semantics + accounting), spec/store/CacheTrace.tla,
spec/store/TableStore.tla (table store: documented merge).

1. TLC enumerates every operation sequence up to the bound over a menu (set / get / get of a missing key /
   reopen / unload / value larger than the limit, flat and nested key paths) x cache limits, explores
   FileCache.tla for each and checks Accounting, Linearizable (= dictionary semantics for one client),
   MemNonNeg, MemBounded, NoInternalError; it emits the predicted history (results, byte total after each
   call) of every sequence.
2. Every sequence is executed through the Klong surface (`kvs,"k",,v`, `kvs?"k"`, a new `.kvs(dir)` for
   reopen) on a scratch directory with the REAL pickled sizes as the model's sizes; after every call the
   result and the cache's accounting fields are recorded.  Prediction vs. observation = drift report;
   the recorded history + snapshots are validated by TLC against CacheAbs (verdict).
"""
import itertools
import json
import logging
import os
import shutil
import tempfile

import common
import fcmodel
from common import Evidence, Verdicts, run_tlc, stage_spec, MachineryError

PROP = "C16"
CLIENT = "c1"
KEYS = ["a", "b", "d/e/f", "zz", "a/sub", "kc", "kd"]
# two keys that differ only in Unicode composition are different keys; the model (and TLC) see the ASCII aliases
REAL = {"kc": "caf\u00e9", "kd": "cafe\u0301"}
ALIAS = {v: k_ for k_, v in REAL.items()}


def real(f):
    return REAL.get(f, f)


def alias(name):
    return ALIAS.get(name, name)
VALUE_SRC = {1: "42", 2: '"hello world"', 3: '[1 2 [3 "x"] "yy" 4.5]', 4: ':{[1 2] ["k" "v"]}', 5: "2.5", 6: ":sym", 7: '[0cx "s" :sym 1.5 [] ""]',
             8: '""', 9: "[]"}


def klong_env():
    common.use_repo()
    from klongpy import KlongInterpreter
    k = KlongInterpreter()
    k('.py("klongpy.db")')
    for i, src in VALUE_SRC.items():
        k(f"v{i}::{src}")
    return k


def real_sizes(k):
    """Bytes actually written for each value when it is set through the Klong surface (dry run)."""
    root = tempfile.mkdtemp(prefix="kvsz-", dir=common.scratch())
    k["kvdir"] = root
    k("kvs::.kvs(kvdir)")
    out = {}
    for i in VALUE_SRC:
        k(f'kvs,"s{i}",,v{i}')
        out[str(i)] = os.path.getsize(os.path.join(root, f"s{i}"))
    shutil.rmtree(root, ignore_errors=True)
    return out


def stored_texts(k):
    """Structural text of what reads back for each value (the value as the store holds it)."""
    root = tempfile.mkdtemp(prefix="kvsz-", dir=common.scratch())
    k["kvdir"] = root
    k("kvs::.kvs(kvdir)")
    out = {}
    for i in VALUE_SRC:
        k(f'kvs,"s{i}",,v{i}')
        out[i] = repr_value(k(f'kvs?"s{i}"'))
        if not k(f'v{i}~kvs?"s{i}"'):
            out[i] = "MISMATCH(" + out[i] + ")"
    shutil.rmtree(root, ignore_errors=True)
    return out


def value_texts(k):
    from klongpy.writer import kg_write  # noqa
    out = {}
    for i in VALUE_SRC:
        out[i] = k(f'.rs("0");$v{i}') if False else repr_value(k[f"v{i}"])
    return out


def repr_value(v):
    """Structural text of a Klong value (kind-sensitive), used to identify which value came back."""
    common.use_repo()
    import numpy as np
    from klongpy.core import KGSym, KGChar, KLONG_UNDEFINED
    if v is KLONG_UNDEFINED:
        return "UNDEF"
    if isinstance(v, KGSym):
        return "y:" + str(v)
    if isinstance(v, KGChar):
        return "c:" + str(v)
    if isinstance(v, str):
        return "s:" + v
    if isinstance(v, (bool, np.bool_)):
        return "b:" + str(v)
    if isinstance(v, (int, np.integer)):
        return "i:" + str(int(v))
    if isinstance(v, (float, np.floating)):
        return "r:" + repr(float(v))
    if isinstance(v, dict):
        return "d:{" + ",".join(repr_value(a) + "=>" + repr_value(b) for a, b in v.items()) + "}"
    if isinstance(v, (list, tuple, np.ndarray)):
        return "l:[" + ",".join(repr_value(x) for x in v) + "]"
    return "?:" + type(v).__name__


MENU = ([{"k": "upd", "f": "a", "v": v} for v in (1, 2, 3)] + [{"k": "upd", "f": "b", "v": v} for v in (2, 3)] +
        [{"k": "upd", "f": "d/e/f", "v": v} for v in (1, 3)] + [{"k": "get", "f": f, "v": 0} for f in KEYS[:5]] +
        [{"k": "reo", "f": "a", "v": 0}, {"k": "unl", "f": "a", "v": 0}])


def write_mc(d, sizes, limits, maxlen, extra_progs):
    values = sorted(int(v) for v in sizes)
    menu = "{" + ", ".join(fcmodel.tla_op(o) for o in MENU) + "}"
    extra = "{" + ", ".join("<<" + ", ".join(fcmodel.tla_op(o) for o in p) + ">>" for p in extra_progs) + "}"
    with open(os.path.join(d, "MCSeq.tla"), "w") as f:
        f.write("---- MODULE MCSeq ----\nEXTENDS FileCache, Json\n")
        f.write("MCSize == " + " @@ ".join("(%d :> %d)" % (v, sizes[str(v)]) for v in values) + "\n")
        f.write(f"Menu == {menu}\n")
        f.write(f"SeqProgs == UNION {{[1..n -> Menu] : n \\in 1..{maxlen}}} \\cup {extra}\n")
        f.write("Disk0 == [f \\in Files |-> Absent]\n")
        f.write("MCConfigs == {[maxmem |-> m, progs |-> (\"%s\" :> p), disk |-> Disk0] : m \\in {%s}, p \\in SeqProgs}\n"
                % (CLIENT, ", ".join(str(x) for x in limits)))
        f.write('''EmitS == AllDone => PrintT(ToJson([maxmem |-> cf.maxmem, prog |-> cf.progs["%s"], hist |-> hist,
                      bytes |-> EntryBytes, heap |-> HeapFiles, mem |-> mem, disk |-> disk]))
''' % CLIENT)
        f.write("====\n")
    cfg = os.path.join(d, "MCSeq.cfg")
    lines = ["INIT Init", "NEXT Next", "CONSTANTS", '  Clients = {"%s"}' % CLIENT,
             "  Files = {%s}" % ", ".join('"%s"' % x for x in KEYS),
             "  Values = {%s}" % ", ".join(str(v) for v in values),
             "  SizeOf <- MCSize", "  Configs <- MCConfigs", "  ExcludeKnown = FALSE",
             "INVARIANT TypeOK", "INVARIANT MemNonNeg", "INVARIANT MemBounded", "INVARIANT NoInternalError",
             "INVARIANT Accounting", "INVARIANT Linearizable", "INVARIANT EmitS"]
    with open(cfg, "w") as f:
        f.write("\n".join(lines) + "\n")
    return os.path.join(d, "MCSeq.tla"), cfg


class KvsDriver:
    def __init__(self, k, texts, limit):
        self.k, self.texts, self.limit = k, texts, limit
        self.root = tempfile.mkdtemp(prefix="kvs-", dir=common.scratch())
        self.k["kvdir"] = self.root
        self.open()

    def open(self):
        self.k("kvs::.kvs(kvdir)")
        self.store = self.k["kvs"]
        self.store.cache.max_memory = self.limit

    def val_id(self, v):
        t = repr_value(v)
        if t == "UNDEF":
            return None
        for i, x in self.texts.items():
            if x == t:
                return i
        return 99

    def snapshot(self):
        c = self.store.cache
        nbytes = {f: -1 for f in KEYS}
        for f, info in c.file_futures.items():
            nbytes[alias(f)] = int(info[1])
        return {"mem": int(c.current_memory_usage), "bytes": nbytes,
                "heapfiles": sorted({alias(fn) for _, fn in c.file_access_times}), "maxmem": int(c.max_memory)}

    def run(self, prog):
        hist, snaps = [], []
        evc = 1
        for o in prog:
            h = {"c": CLIENT, "k": o["k"], "f": o["f"], "v": o["v"], "inv": evc, "res": evc + 1, "out": "?", "val": 0}
            evc += 2
            try:
                if o["k"] == "upd":
                    self.k(f'kvs,"{real(o["f"])}",,v{o["v"]}')
                    h["out"] = "applied"
                elif o["k"] == "get":
                    r = self.k(f'kvs?"{real(o["f"])}"')
                    vid = self.val_id(r)
                    if vid is None:
                        h["out"] = "nofile"          # read as :undefined
                    else:
                        h["out"], h["val"] = "value", vid
                elif o["k"] == "reo":
                    self.open()
                    h["out"] = "ok"
                else:
                    self.store.cache.unload_file(real(o["f"]))
                    h["out"] = "ok"
            except MemoryError:
                h["out"] = "memerr"
            except BaseException as e:   # noqa
                h["out"] = "internalerr"
                h["exc"] = type(e).__name__
            hist.append(h)
            snaps.append(self.snapshot())
        return hist, snaps

    def disk(self):
        from klongpy.db.helpers import deserialize_obj
        out = {}
        for f in KEYS:
            p = os.path.join(self.root, real(f))
            if os.path.exists(p):
                try:
                    with open(p, "rb") as fh:
                        v = self.val_id(deserialize_obj(fh.read()))
                    out[f] = 99 if v is None else v
                except Exception:
                    out[f] = 99
            else:
                out[f] = -1
        return out

    def cleanup(self):
        shutil.rmtree(self.root, ignore_errors=True)


TKEYS = ["a", "b", "d/e"]
TRANGE = {1: range(0, 25), 2: range(5, 35), 3: range(100, 125), 4: range(3, 7), 5: range(24, 31), 6: range(20, 28), 7: range(0, 0)}      # 7: a table with a schema and no rows
EXTRA_COL = {6}          # table 6 has a second column q: a stored row wins as a WHOLE (its q stays undefined)


def run_tables(ev, vd, thorough, seed):
    """The table store: histories of TableStoreGen.tla through the Klong surface of .tables, judged with TableStoreAbs.tla."""
    import random
    import pandas as pd
    d = stage_spec("store/TableStoreAbs.tla", "store/TableStoreGen.tla", "store/TableStoreTrace.tla")
    mod = os.path.join(d, "TableStoreGen.tla")
    hists = []
    for name, maxops, sim in (("tree", 3, None), ("sim", 7, 400 if not thorough else 5000)):
        cfg = os.path.join(d, f"{name}.cfg")
        with open(cfg, "w") as f:
            f.write("INIT Init\nNEXT Next\nCONSTANTS\n  Keys = {%s}\n  MaxOps = %d\nINVARIANT Emit\nCHECK_DEADLOCK FALSE\n"
                    % (", ".join('"%s"' % x for x in TKEYS), maxops))
        r = run_tlc(mod, cfg, workers=1, simulate=(f"num={sim // 4}" if sim else None), depth=(maxops + 1 if sim else None), seed=seed + 17, timeout=3000)
        ev.add_tlc(f"TableStoreGen.tla histories of {maxops} operations" + (" (-simulate)" if sim else " (exhaustive)"), r)
        hs = [p for p in r.prints if isinstance(p, list)]
        if sim:
            random.Random(seed).shuffle(hs)
            hs = hs[:sim]
        hists += hs
    if len(hists) < 300:
        raise MachineryError(f"only {len(hists)} table-store histories")
    common.use_repo()
    from klongpy import KlongInterpreter
    from klongpy.db.sys_fn_db import Table
    from klongpy.db.helpers import serialize_df, df_memory_usage
    k = KlongInterpreter()
    k('.py("klongpy.db")')
    dfs = {t: pd.DataFrame(dict({"s": [f"{t}-{i}" for i in rng]}, **({"q": [1000 + i for i in rng]} if t in EXTRA_COL else {})), index=list(rng))
           for t, rng in TRANGE.items()}
    for t, df in dfs.items():
        k[f"t{t}"] = Table(df)
    m1, m3 = int(df_memory_usage(dfs[1])), int(df_memory_usage(dfs[3]))
    p3 = len(serialize_df(dfs[3]))
    limits = [m1 + (p3 + m3) // 2,            # one table in memory; the second fits by its pickled size only
              10 * (m1 + m3),                  # everything fits
              (len(serialize_df(dfs[4])) + int(df_memory_usage(dfs[4]))) // 2]   # smaller than the smallest table in memory
    ev.cov["table_store_limits"] = limits
    traces, meta = [], {}
    for hi, h in enumerate(hists):
        limit = limits[hi % len(limits)]
        root = tempfile.mkdtemp(prefix="tbs-", dir=common.scratch())
        k["tdir"] = root

        def reopen():
            k("tbs::.tables(tdir)")
            k["tbs"].cache.max_memory = limit
        reopen()
        events = []
        try:
            for e in h:
                ev_ = dict(e)
                internal = False
                try:
                    if e["op"] == "set":
                        ev_["rows"] = [[i, e["t"] + (100 if e["t"] in EXTRA_COL else 0)] for i in TRANGE[e["t"]]]
                        k(f'tbs,"{e["key"]}",,t{e["t"]}')
                    elif e["op"] == "get":
                        r = k(f'tbs?"{e["key"]}"')
                        if isinstance(r, Table):
                            df = r.get_dataframe()
                            qs = list(df["q"]) if "q" in df.columns else [None] * len(df)
                            ev_["und"], ev_["obs"] = False, [[int(i), int(str(sv).split("-")[0]) + (100 if (qv is not None and qv == qv) else 0)]
                                                             for i, sv, qv in zip(df.index, df["s"], qs)]
                        else:
                            ev_["und"], ev_["obs"] = True, []
                    elif e["op"] == "reopen":
                        reopen()
                    else:
                        k["tbs"].cache.unload_file(e["key"])
                except MemoryError:
                    ev_["op"] = "refused"                  # documented: a table larger than the limit is refused (not stored)
                except BaseException as ex:   # noqa
                    internal = True
                    ev_["exc"] = f"{type(ex).__name__}: {str(ex)[:60]}"
                    ev_.setdefault("und", False)
                    ev_.setdefault("obs", [])
                c = k["tbs"].cache
                ev_["acct"] = {"mem": int(c.current_memory_usage), "sum": int(sum(int(i[1]) for i in c.file_futures.values() if not i[0])),
                               "limit": int(limit), "internal": internal}
                events.append(ev_)
        finally:
            shutil.rmtree(root, ignore_errors=True)
        tid = len(traces)
        traces.append({"tid": tid, "keys": TKEYS + ["never"], "events": events})
        meta[tid] = (h, limit)
    tf = os.path.join(d, "tbs.json")
    with open(tf, "w") as fh:
        json.dump(traces, fh)
    cfgt = os.path.join(d, "trace.cfg")
    with open(cfgt, "w") as fh:
        fh.write("INIT Init\nNEXT Next\nCHECK_DEADLOCK FALSE\n")
    rt = run_tlc(os.path.join(d, "TableStoreTrace.tla"), cfgt, workers=1, extra_env={"TRACE_FILE": tf}, timeout=3000)
    ev.add_tlc("TableStoreTrace.tla (table store runs)", rt, "one state per recorded run; merge semantics and accounting after every call")
    verdicts = {v["tid"]: v for v in rt.prints if isinstance(v, dict) and "tid" in v}
    if len(verdicts) != len(traces):
        raise MachineryError(f"table-store validation returned {len(verdicts)} verdicts for {len(traces)} traces")
    clusters = {}
    for tid, v in verdicts.items():
        if v["bad"] == "ok":
            continue
        h, limit = meta[tid]
        e = traces[tid]["events"][v["at"] - 1]
        ops = [(x["op"], x.get("key"), x.get("t")) for x in h[:v["at"]]]
        case = {"clause": "TableStore:" + v["bad"], "limit": limit, "prog": ops, "exceptions": [e.get("exc")],
                "what": f"table store, limit {limit}: after {ops}: {v['bad']}: accounting {e['acct']}" + (f", raised {e['exc']}" if e.get("exc") else "")
                        + (f", read {len(e.get('obs', []))} rows" if e["op"] == "get" else "")}
        clusters.setdefault((v["bad"], limit), []).append(case)
    for key, items in sorted(clusters.items(), key=lambda kv: str(kv[0])):
        items.sort(key=lambda c_: len(c_["prog"]))
        case = dict(items[0])
        case["cluster_size"] = len(items)
        vd.violation(case, matcher=lambda f, c_: False)
    ev.cov["table_store_histories"] = len(traces)
    return len(traces)


def run(tier, seed):
    logging.disable(logging.CRITICAL)
    ev = Evidence(PROP, tier, seed)
    vd = Verdicts(PROP, ev)
    thorough = tier == "thorough"
    n_tables = run_tables(ev, vd, thorough, seed)
    d = stage_spec("store/FileCache.tla", "store/CacheAbs.tla", "store/CacheTrace.tla")
    k = klong_env()
    sizes = real_sizes(k)
    texts = {i: repr_value(k[f"v{i}"]) for i in VALUE_SRC}
    st = stored_texts(k)
    for i in VALUE_SRC:
        # the value that reads back right after a set must be the value that was set (kind-sensitive,
        # integers may come back as NumPy integers: same kind)
        if st[i] != texts[i]:
            vd.violation({"what": f"value v{i} = {VALUE_SRC[i]} reads back from the store as {st[i]}, expected {texts[i]}",
                          "clause": "RoundTrip", "value": VALUE_SRC[i]})
    s1, s2, s3 = sizes["1"], sizes["2"], sizes["3"]
    limits = [s3 - 1, s3 + s2 + 2, 4 * s3]      # v3 too large / v3+v2 fit but not +v1.. / everything fits
    maxlen = 3 if not thorough else 4
    # every value kind: set, read, reopen, read again (pickle round trip through the store)
    extra = [[{"k": "upd", "f": "a", "v": v}, {"k": "get", "f": "a", "v": 0}, {"k": "reo", "f": "a", "v": 0},
              {"k": "get", "f": "a", "v": 0}, {"k": "upd", "f": "d/e/f", "v": v}, {"k": "get", "f": "d/e/f", "v": 0}]
             for v in VALUE_SRC]
    # keys differing only in Unicode composition: independent entries, also after eviction and reopening
    extra += [[{"k": "upd", "f": "kc", "v": 1}, {"k": "upd", "f": "kd", "v": 2}, {"k": "get", "f": "kc", "v": 0}, {"k": "get", "f": "kd", "v": 0},
               {"k": "reo", "f": "a", "v": 0}, {"k": "get", "f": "kd", "v": 0}, {"k": "get", "f": "kc", "v": 0}],
              [{"k": "upd", "f": "kd", "v": 3}, {"k": "get", "f": "kc", "v": 0}, {"k": "upd", "f": "kc", "v": 2}, {"k": "unl", "f": "kd", "v": 0},
               {"k": "get", "f": "kd", "v": 0}, {"k": "get", "f": "kc", "v": 0}]]
    mod, cfg = write_mc(d, sizes, limits, maxlen, extra)
    r = run_tlc(mod, cfg, workers=16 if thorough else 8, coverage=True, deadlock=True, timeout=7200)
    ev.add_tlc(f"FileCache.tla sequential: all op sequences of length <= {maxlen} over a menu of {len(MENU)} ops x limits {limits}",
               r, "invariants TypeOK MemNonNeg MemBounded NoInternalError Accounting Linearizable + deadlock check")
    if r.violated:
        vd.violation({"what": f"design-level: FileCache.tla (sequential) violates {r.violated}", "counterexample": r.cex[:8000]})
    preds = [p for p in r.prints if isinstance(p, dict) and "prog" in p]
    if not preds:
        raise MachineryError("TLC emitted no sequential behaviours")

    traces, meta = [], {}
    drift = 0
    nontrivial = 0
    for p in preds:
        drv = KvsDriver(k, texts, p["maxmem"])
        try:
            hist, snaps = drv.run(p["prog"])
            disk = drv.disk()
            last = snaps[-1]
            cached = {}
            for f in KEYS:
                info = drv.store.cache.file_futures.get(real(f))
                if info is None:
                    cached[f] = -2
                else:
                    try:
                        from klongpy.db.helpers import deserialize_obj
                        v = drv.val_id(deserialize_obj(info[-1].result()))
                        cached[f] = 99 if v is None else v
                    except Exception:
                        cached[f] = -3
        finally:
            drv.cleanup()
        tid = len(traces)
        excs = [h.pop("exc", None) for h in hist]
        traces.append({"tid": tid, "hist": hist, "snaps": snaps, "initdisk": {f: -1 for f in KEYS}, "disk": disk,
                       "cached": cached, "bytes": last["bytes"], "heapfiles": last["heapfiles"], "mem": last["mem"],
                       "maxmem": last["maxmem"], "minmem": min(s["mem"] for s in snaps), "hung": 0, "files": KEYS})
        meta[tid] = (p, excs)
        pr = [(h["k"], h["f"], h["out"], h["val"], h["mem"]) for h in p["hist"]]
        rl = [(h["k"], h["f"], h["out"], h["val"], s["mem"]) for h, s in zip(hist, snaps)]
        if pr != rl:
            drift += 1
            if len(ev.cov.setdefault("spec_drift_samples", [])) < 3:
                ev.cov["spec_drift_samples"].append({"limit": p["maxmem"], "predicted": pr, "real": rl})
        if len({o["f"] for o in p["prog"]}) >= 2 or any(o["k"] in ("reo", "unl") for o in p["prog"]):
            nontrivial += 1

    # validation by TLC against CacheAbs (history + accounting after every call)
    tf = os.path.join(d, "kvs.json")
    with open(tf, "w") as fh:
        json.dump(traces, fh)
    cfgt = os.path.join(d, "trace.cfg")
    with open(cfgt, "w") as fh:
        fh.write("INIT Init\nNEXT Next\nCHECK_DEADLOCK FALSE\n")
    rt = run_tlc(os.path.join(d, "CacheTrace.tla"), cfgt, workers=1, extra_env={"TRACE_FILE": tf}, timeout=3000)
    ev.add_tlc("CacheTrace.tla (sequential store runs)", rt, "one state per recorded run; accounting checked after every call")
    verdicts = {v["tid"]: v["bad"] for v in rt.prints if isinstance(v, dict) and "tid" in v}
    if len(verdicts) != len(traces):
        raise MachineryError(f"trace validation returned {len(verdicts)} verdicts for {len(traces)} traces")

    def matcher(f, case):
        m = f.get("match", {})
        return m.get("pattern") == "missing-key-raises" and case["clause"] == "InternalError" and \
            all(e in (None, "FileNotFoundError") for e in case["exceptions"])

    for tid, bad in verdicts.items():
        if bad == "ok":
            continue
        p, excs = meta[tid]
        vd.violation({"what": f"real KeyValueStorage run violates {bad}: limit {p['maxmem']} ops "
                              f"{[(o['k'], o['f'], o['v']) for o in p['prog']]} exceptions {excs}",
                      "clause": bad, "prog": p["prog"], "limit": p["maxmem"], "observed": traces[tid],
                      "exceptions": excs}, matcher=matcher)
    ev.cov["traces_validated_against_impl"] = len(traces)
    ev.cov["evaluations"] = len(traces)
    ev.cov["distinct_nontrivial"] = nontrivial
    ev.cov["exhaustive"] = True
    ev.cov["rule"] = (f"every sequence of <= {maxlen} operations over the menu (set a/b/d/e/f with 3 values of different "
                      f"pickled size, get of 4 keys incl. a never-set one, reopen, unload) x 3 cache limits computed "
                      f"from the real pickled sizes {sizes}; plus a round trip of every value kind; non-trivial = touches "
                      f">= 2 keys or contains reopen/unload")
    ev.cov["spec_drift"] = drift
    if drift:
        print(f"SPEC-DRIFT property={PROP}: {drift} of {len(traces)} runs differ from FileCache.tla's predicted results/byte totals")
    for t in traces[:2]:
        ev.sample({"limit": t["maxmem"], "history": t["hist"], "mem_after_each_call": [s["mem"] for s in t["snaps"]]})
    ev.cov["checker_cmd"] = "tlc FileCache.tla (MCSeq) ; tlc CacheTrace.tla"
    ev.assumptions += ["one store object at a time (sequential); concurrency is C18",
                       "TableStorage's merge is covered by the table part below only when TableStore.tla is present"]
    return vd.finish()


def replay(path):
    with open(path) as f:
        case = json.load(f)["case"]
    k = klong_env()
    texts = {i: repr_value(k[f"v{i}"]) for i in VALUE_SRC}
    drv = KvsDriver(k, texts, case["limit"])
    try:
        hist, snaps = drv.run(case["prog"])
        for h, s in zip(hist, snaps):
            print(h, s["mem"], s["bytes"])
    finally:
        drv.cleanup()
    return 0
