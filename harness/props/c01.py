"""C01 - primitive verbs return what the Klong reference prescribes, for all operands.

spec/kg/KgValues.tla, KgVerbs.tla  the reference semantics of every verb (one operator per verb, with the domain in which
                                   the reference text defines a result), evaluated by TLC
spec/kg/KgUniverse.tla             the closed operand universes and the enumeration of all in-domain cases

TLC enumerates verb x operand (pairs) over the universe, keeps the cases inside the verb's domain and computes the
prescribed value; every case is rendered as literal Klong source `(a)VERB(b)` / `VERB(a)`, evaluated by a fresh
KlongInterpreter and compared for identical nesting, elements and integer/real/character/string kind.
"""
import json
import os

import common
import canon
from common import Evidence, Verdicts, run_tlc, stage_spec, MachineryError

PROP = "C01"


def kind(v):
    k = v["t"]
    if k == "l":
        if not v["v"]:
            return "empty-list"
        subs = {kind(x) for x in v["v"]}
        if subs <= {"int"}:
            return "int-vector"
        if subs <= {"int", "real"}:
            return "num-vector"
        if all(x["t"] == "l" for x in v["v"]):
            return "matrix" if len({len(x["v"]) for x in v["v"]}) == 1 and all(all(y["t"] != "l" for y in x["v"]) for x in v["v"]) else "nested"
        if any(x["t"] == "l" for x in v["v"]):
            return "ragged"
        return "mixed-list"
    return {"i": "int", "r": "real", "c": "char", "s": "string", "y": "symbol", "d": "dict", "u": "undef"}.get(k, k)


def evaluate(klong_factory, case):
    a = canon.render(case["a"])
    src = f"{case['verb']}({a})" if case["m"] else f"({a}){case['verb']}({canon.render(case['b'])})"
    k = klong_factory()
    try:
        r = k(src)
        return src, canon.canon(r), None
    except BaseException as e:   # noqa
        return src, {"t": "exc", "v": type(e).__name__}, f"{type(e).__name__}: {str(e)[:100]}"


def finding_matcher(f, case):
    """Fixed interpreter of the `match` predicates of known_findings.json (no code from the file is executed).
    Keys (all given keys must hold): verbs, monad, a / b (operand classes), diff, numeric_only, char1_only,
    shapes_differ (both operands are lists of different shape)."""
    m = f.get("match", {})
    if "verbs" in m and case["verb"] not in m["verbs"]:
        return False
    if "monad" in m and bool(m["monad"]) != bool(case["m"]):
        return False
    if "a" in m and case["ka"] not in m["a"]:
        return False
    if "b" in m and case.get("kb") not in m["b"]:
        return False
    if "any_operand" in m and not ({case["ka"], case.get("kb")} & set(m["any_operand"])):
        return False
    if "diff" in m and case["diff"] not in m["diff"]:
        return False
    if m.get("numeric_only") and not case["numeric_only"]:
        return False
    if m.get("char1_only") and not case["char1_only"]:
        return False
    if m.get("shapes_differ") and not case["shapes_differ"]:
        return False
    return True


def diffclass(exp, got):
    if got["t"] == "exc":
        return "raises"
    if got["t"] != exp["t"]:
        return "kind"
    if exp["t"] == "l" and len(exp["v"]) != len(got["v"]):
        return "shape"
    return "element"


def run(tier, seed):
    import logging
    logging.disable(logging.CRITICAL)
    ev = Evidence(PROP, tier, seed)
    vd = Verdicts(PROP, ev)
    d = stage_spec("kg/KgValues.tla", "kg/KgVerbs.tla", "kg/KgUniverse.tla")
    cfg = os.path.join(d, "u.cfg")
    with open(cfg, "w") as f:
        f.write('INIT Init\nNEXT Next\nCONSTANT Tier = "%s"\nINVARIANT Emit\nCHECK_DEADLOCK FALSE\n' % tier)
    r = run_tlc(os.path.join(d, "KgUniverse.tla"), cfg, workers=1, timeout=7200)
    ev.add_tlc(f"KgUniverse.tla ({tier}): all verb x operand(-pair) cases; in-domain cases evaluated by KgVerbs.tla", r,
               "TLC is the evaluator of the reference semantics; one state per candidate case")
    cases = [p for p in r.prints if isinstance(p, dict) and "verb" in p]
    if len(cases) < 1000:
        raise MachineryError(f"only {len(cases)} cases emitted")
    common.use_repo()
    from klongpy import KlongInterpreter
    verbs_m, verbs_d = set(), set()
    clusters = {}
    nbad = 0
    for c in cases:
        (verbs_m if c["m"] else verbs_d).add(c["verb"])
        if c["exp"]["t"] == "e":
            raise MachineryError(f"reference semantics yields an error inside its own domain: {c}")
        src, got, exc = evaluate(KlongInterpreter, c)
        if canon.same(c["exp"], got):
            continue
        if c["verb"] == "^" and not c["m"] and canon.same_mod(c["exp"], got, numeric=True):
            continue        # Power: the reference does not fix integer/real kind of a whole result
        nbad += 1
        info = {"verb": c["verb"], "m": c["m"], "ka": kind(c["a"]), "kb": kind(c["b"]) if not c["m"] else None,
                "diff": diffclass(c["exp"], got), "src": src,
                "numeric_only": got["t"] != "exc" and canon.same_mod(c["exp"], got, numeric=True),
                "char1_only": got["t"] != "exc" and canon.same_mod(c["exp"], got, numeric=True, char1=True),
                "shapes_differ": (not c["m"]) and c["a"]["t"] == "l" and c["b"]["t"] == "l" and canon.shape(c["a"]) != canon.shape(c["b"]), "expected": canon.show(c["exp"]),
                "observed": canon.show(got) if got["t"] not in ("exc", "x", "b", "f") else str(got), "exception": exc}
        info["what"] = (f"{src} gives {info['observed']}{' (' + exc + ')' if exc else ''}; the reference prescribes {info['expected']}"
                        f"  [{info['ka']}{' , ' + info['kb'] if info['kb'] else ''}; {info['diff']}]")
        key = (c["verb"], c["m"], info["ka"], info["kb"], info["diff"], info["numeric_only"], info["char1_only"])
        clusters.setdefault(key, []).append(info)
    # second route: the operands are VALUES HELD BY VARIABLES of one long-lived interpreter (bound once, used by every case):
    # a verb must return the same value and must leave its operands alone (values are immutable)
    bad_src = {x["src"] for items in clusters.values() for x in items}
    ops, order = {}, []
    for c in cases:
        for o in ([c["a"]] if c["m"] else [c["a"], c["b"]]):
            key = json.dumps(o, sort_keys=True)
            if key not in ops:
                ops[key] = (f"u{len(ops)}", o)
                order.append(key)
    K = KlongInterpreter()
    for key in order:
        name, o = ops[key]
        K(f"{name}::{canon.render(o)}")
    bound = {key: canon.canon(K(ops[key][0])) for key in order}       # what the variable holds right after binding
    nvar = 0
    for c in cases:
        na = ops[json.dumps(c["a"], sort_keys=True)][0]
        src = f"{c['verb']}{na}" if c["m"] else f"{na}{c['verb']}{ops[json.dumps(c['b'], sort_keys=True)][0]}"
        lit_src = evaluate.__code__ and (f"{c['verb']}({canon.render(c['a'])})" if c["m"] else f"({canon.render(c['a'])}){c['verb']}({canon.render(c['b'])})")
        if lit_src in bad_src:
            continue                     # already reported by the first route
        if c["verb"] == "^" and not c["m"]:
            continue
        try:
            got = canon.canon(K(src))
            exc = None
        except BaseException as e:   # noqa
            got, exc = {"t": "exc", "v": type(e).__name__}, f"{type(e).__name__}: {str(e)[:100]}"
        nvar += 1
        if not canon.same(c["exp"], got):
            info = {"verb": c["verb"], "m": c["m"], "ka": kind(c["a"]), "kb": kind(c["b"]) if not c["m"] else None, "diff": "via-variable",
                    "src": lit_src, "numeric_only": False, "char1_only": False,
                    "shapes_differ": (not c["m"]) and c["a"]["t"] == "l" and c["b"]["t"] == "l" and canon.shape(c["a"]) != canon.shape(c["b"]),
                    "expected": canon.show(c["exp"]),
                    "observed": canon.show(got) if got["t"] not in ("exc", "x", "b", "f") else str(got), "exception": exc}
            info["what"] = (f"{lit_src} evaluated with its operands held by variables of a long-lived interpreter gives {info['observed']}"
                            f"{' (' + exc + ')' if exc else ''}; the same text from literals gives the prescribed {info['expected']}")
            clusters.setdefault((c["verb"], c["m"], info["ka"], info["kb"], "via-variable", False, False), []).append(info)
    for key in order:
        name, o = ops[key]
        now = canon.canon(K(name))
        if not canon.same(bound[key], now):
            info = {"verb": "(operand)", "m": 1, "ka": kind(o), "kb": None, "diff": "operand-mutated", "src": f"{name}::{canon.render(o)}",
                    "numeric_only": False, "char1_only": False, "shapes_differ": False, "expected": canon.show(o), "observed": canon.show(now),
                    "exception": None}
            info["what"] = (f"an operand was changed by a verb applied to it: the variable bound to {canon.show(o)} holds "
                            f"{canon.show(now)} after the cases were evaluated")
            clusters.setdefault(("(operand)", 1, info["ka"], None, "operand-mutated", False, False), []).append(info)
    ev.cov["cases_through_variables"] = nvar
    # one violation per cluster (verb, operand classes, difference class)
    for key, items in sorted(clusters.items(), key=lambda kv: str(kv[0])):
        info = dict(items[0])
        info["cluster_size"] = len(items)
        info["more"] = [x["src"] for x in items[1:6]]
        vd.violation(info, matcher=finding_matcher)
    ev.cov["evaluations"] = len(cases)
    ev.cov["traces_validated_against_impl"] = len(cases)
    ev.cov["distinct_nontrivial"] = sum(1 for c in cases if c["a"]["t"] in ("l", "s") or (not c["m"] and c["b"]["t"] in ("l", "s")))
    ev.cov["mismatching_cases"] = nbad
    ev.cov["mismatch_clusters"] = len(clusters)
    ev.cov["monads_covered"] = sorted(verbs_m)
    ev.cov["dyads_covered"] = sorted(verbs_d)
    ev.cov["exhaustive"] = True
    ev.cov["rule"] = ("every monad x operand and dyad x operand pair over the closed universe of KgUniverse.tla that lies inside the "
                      "verb's domain (DomM/DomD), once from literals in a fresh interpreter and once with the operands held by variables of one long-lived interpreter (operands must stay unchanged); non-trivial = at least one operand is a list or string")
    for c in cases[:1] + cases[len(cases) // 2:len(cases) // 2 + 1]:
        ev.sample({"verb": c["verb"], "a": canon.show(c["a"]), "b": canon.show(c["b"]) if not c["m"] else None,
                   "prescribed": canon.show(c["exp"])})
    ev.cov["checker_cmd"] = "tlc KgUniverse.tla ; replay into KlongInterpreter"
    ev.assumptions += ["reals of the universe are rationals whose exact results are rational; float results are compared by value (1e-9)",
                       "verbs not yet transcribed: $ (format), :$ (form), a$b (format2), :@ (index-in-depth)",
                       "domains are conservative: where the reference text is silent or ambiguous the case is not judged"]
    return vd.finish()


def replay(path):
    with open(path) as f:
        case = json.load(f)["case"]
    common.use_repo()
    from klongpy import KlongInterpreter
    k = KlongInterpreter()
    print(case["src"], "->", end=" ")
    try:
        print(repr(k(case["src"])))
    except Exception as e:
        print("EXC", type(e).__name__, e)
    print("prescribed:", case["expected"])
    return 0
