"""Beyond the listed properties: the life cycle of a connection accepted by the IPC server (spec/net/Srv.tla).

TLC enumerates every arrival schedule of up to 4 inputs (command, failing command, close request, end of stream on and inside a
frame) with the log the model predicts; each is replayed into the real TcpServerConnectionHandler.handle_client on virtual-time
loops with the hooks .srv.o / .srv.e / .srv.c and the commands logging themselves; the recorded logs are judged by TLC with
Srv!Rule (SrvTrace.tla) and compared with the prediction.  This part decides none of the listed properties: a disagreement is
printed as EXTENSION-DRIFT and recorded in the evidence, it is never a VIOLATION of C13."""
import asyncio
import json
import os
import uuid

import common
from common import run_tlc, stage_spec, MachineryError


def replay(inputs):
    from vloop import VLoop
    from ipcdriver import FakeWriter
    import klongpy.sys_fn_ipc as ipc
    from klongpy import KlongInterpreter
    io, kl = VLoop(), VLoop()
    k = KlongInterpreter()
    log = []
    k[".srv.o"] = lambda x: log.append("o")
    k[".srv.c"] = lambda x: log.append("c")
    k[".srv.e"] = lambda x, y: log.append("e")

    def cmd(x):
        log.append("x")
        if int(x) == 9:
            raise ValueError("scripted failure of a command")
        return int(x) * 10
    k["cmd"] = cmd
    h = ipc.TcpServerConnectionHandler(io, kl, k)
    reader = asyncio.StreamReader(loop=io)
    writer = FakeWriter()
    writer.on_frame = lambda raw, body: log.append("r")
    task = io.create_task(h.handle_client(reader, writer))

    def settle():
        for _ in range(8):
            io.run_ready()
            kl.run_ready()
    settle()
    ended = False
    for a in inputs:
        if ended:
            break               # a stream that has ended delivers nothing more (the model ignores such inputs)
        if a == "eof":
            reader.feed_eof()
            ended = True
        elif a == "cut":
            reader.feed_data(ipc.encode_message(uuid.uuid4(), "cmd(1)")[:18])
            reader.feed_eof()
            ended = True
        elif a == "closereq":
            reader.feed_data(ipc.encode_message(uuid.uuid4(), ipc.KGRemoteCloseConnection()))
        elif a == "fail":
            reader.feed_data(ipc.encode_message(uuid.uuid4(), "cmd(9)"))
        else:
            reader.feed_data(ipc.encode_message(uuid.uuid4(), "cmd(1)"))
        settle()
    out = list(log)
    if not task.done():
        # the connection is still open: end the stream so that the handler returns by itself (what it logs now is not part of the
        # schedule).  Cancelling the handler task instead would block this thread for good: NetworkClient.cleanup() waits for an
        # event that _run sets only on its normal way out - noted in DESIGN.md, outside the listed properties.
        reader.feed_eof()
        settle()
    if not task.done():
        raise MachineryError(f"the connection handler did not return after the end of the stream (inputs {inputs})")
    io.close()
    kl.close()
    return out


def run_srv(ev):
    import traceback
    d = stage_spec("net/Srv.tla", "net/SrvTrace.tla")
    behs = []
    for n in (1, 2, 3, 4):
        cfg = os.path.join(d, f"srv{n}.cfg")
        with open(cfg, "w") as f:
            f.write(f"INIT Init\nNEXT Next\nCONSTANTS\n  MaxIn = {n}\nINVARIANT LogObeysRule\nINVARIANT Emit\nPROPERTY ClosedForGood\nCHECK_DEADLOCK FALSE\n")
        r = run_tlc(os.path.join(d, "Srv.tla"), cfg, workers=1, timeout=600)
        if n == 4:
            ev.add_tlc("Srv.tla (beyond the listed properties): every arrival schedule of up to 4 inputs on one server connection", r,
                       "invariant LogObeysRule, action property ClosedForGood; schedules emitted")
        if r.violated:
            raise MachineryError(f"Srv.tla violates {r.violated}")
        behs += [p for p in r.prints if isinstance(p, dict) and "inp" in p]
    keep = traceback.print_exception
    traceback.print_exception = lambda *a, **k: None
    traces, drift = [], []
    try:
        for b in behs:
            log = replay(b["inp"])
            traces.append({"tid": len(traces), "log": log})
            if log != b["log"]:
                drift.append((b["inp"], b["log"], log))
    finally:
        traceback.print_exception = keep
    tf = os.path.join(d, "srv.json")
    with open(tf, "w") as f:
        json.dump(traces, f)
    cfgt = os.path.join(d, "srvt.cfg")
    with open(cfgt, "w") as f:
        f.write("INIT Init\nNEXT Next\nCHECK_DEADLOCK FALSE\n")
    rt = run_tlc(os.path.join(d, "SrvTrace.tla"), cfgt, workers=1, extra_env={"TRACE_FILE": tf}, timeout=600)
    verdicts = {v["tid"]: v["ok"] for v in rt.prints if isinstance(v, dict) and "tid" in v}
    if len(verdicts) != len(traces):
        raise MachineryError("server life-cycle validation incomplete")
    broken = [traces[t]["log"] for t, ok in verdicts.items() if not ok]
    ev.cov["extension_server_connection_life_cycle"] = {"schedules_replayed": len(traces), "logs_differing_from_Srv_tla": len(drift),
                                                        "logs_rejected_by_Srv_Rule": len(broken),
                                                        "note": "not one of the listed properties: informational, never a VIOLATION"}
    for inp, want, got in drift[:3]:
        print(f"EXTENSION-DRIFT (server connection life cycle, not a listed property): inputs {inp}: Srv.tla predicts {want}, the server logged {got}", flush=True)
    for log in broken[:3]:
        print(f"EXTENSION-DRIFT (server connection life cycle, not a listed property): the log {log} does not obey Srv!Rule", flush=True)
    return len(traces)
