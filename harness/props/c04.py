"""C04 - evaluation depends only on program text and variable state; values are immutable.

spec/kg/KgMachine.tla   the interpreter as a transition system over a closed statement alphabet (assign literal, alias,
                        amend, amend a taken / reversed / indexed / reshaped / transposed sub-list, join, drop, functions whose
                        bodies contain list and dictionary literals, adverb expression, repeated identical texts)

TLC explores the statement histories (exhaustive tree to depth 3, -simulate to depth 9), checks the frame condition on the
model and emits every behaviour with the value of each statement and the environment after it.  Each behaviour is executed
twice by real interpreters: A runs the whole history (and so carries parse cache, compiled-expression caches, mutated AST
nodes and shared NumPy buffers); B is fresh for every step and is loaded with the specification's pre-state.  After every
step the result and the snapshot of ALL variables of A and of B must equal the specification's.
"""
import json
import os
import random

import common
import canon
import kgeval
from common import Evidence, Verdicts, run_tlc, stage_spec, MachineryError

PROP = "C04"
PRELUDE = ["e1::{[a];a::[10 20 30];a@x}", "f1::{[t];t::[1 2 3];t:=x,0}", "g1::{[q];q:::{[1 2]};q,x,,x;#q}", "h1::{[t];t::!4;t:=x,1}"]
NAMES = ["a", "b", "c", "d", "e"]


def render_stmt(s):
    if s["k"] == "modin":
        return ".module(:m)"
    if s["k"] == "modout":
        return ".module(0)"
    if s["k"] == "fail":
        return s["src"]
    if s["k"] == "assign":
        return f"{s['n']}::{render_expr(s['e'])}"
    return render_expr(s["e"])


def render_expr(e):
    if e["k"] == "callf":
        return f"{e['f']}({render_expr(e['a'])})"
    if e["k"] == "dy":
        return f"({render_expr(e['a'])}){e['op']}({render_expr(e['b'])})"
    if e["k"] == "mo":
        return f"{e['op']}({render_expr(e['a'])})"
    return kgeval.render_ast(e)


def new_interp():
    from klongpy import KlongInterpreter
    k = KlongInterpreter()
    for p in PRELUDE:
        k(p)
    return k


def snap(k):
    """The variable state by scope: g = globals below the module, m = the module's own names, p = names created after it."""
    from klongpy.interpreter import KGModule
    scopes = list(k._context._context)
    mi = next((q for q, d in enumerate(scopes) if isinstance(d, KGModule)), None)
    out = {"g": {}, "m": {}, "p": {}}
    for q, d in reversed(list(enumerate(scopes))):
        if not hasattr(d, "items"):
            continue
        sc = "g" if mi is None or q > mi else "m" if q == mi else "p"
        try:
            items = list(d.items())
        except Exception:   # noqa
            continue
        for name, v in items:
            n = str(name).split("`")[0]
            if n not in NAMES:
                continue
            c = canon.canon(v)
            if c["t"] == "y" and "".join(chr(z) for z in c["v"]) == n:
                continue
            out[sc][n] = c
    return out


def norm(st):
    """ToJson prints an empty function as []"""
    return {sc: ({} if isinstance(st[sc], list) else st[sc]) for sc in ("g", "m", "p")}


def same_env(a, b):
    for sc in ("g", "m", "p"):
        if set(a[sc]) != set(b[sc]):
            return False
        if not all(canon.same(a[sc][n], b[sc][n]) for n in a[sc]):
            return False
    return True


def show_env(e):
    return {sc: {n: canon.show(v) for n, v in e[sc].items()} for sc in ("g", "m", "p") if e[sc]}


def load(B, st, ph):
    for n, v in st["g"].items():
        B(f"{n}::{canon.render(v)}")
    if ph >= 1:
        B(".module(:m)")
        for n, v in st["m"].items():
            B(f"{n}::{canon.render(v)}")
    if ph == 2:
        B(".module(0)")
        for n, v in st["p"].items():
            B(f"{n}::{canon.render(v)}")


class Pristine:
    """client of harness/pristine.py"""
    def __init__(self):
        import subprocess
        import sys
        env = dict(os.environ, KLVERIF_REPO=common.REPO, PYTHONHASHSEED="0")
        self.p = subprocess.Popen([sys.executable, "-B", "-W", "ignore", os.path.join(common.VERIF, "harness", "pristine.py")], stdin=subprocess.PIPE,
                                  stdout=subprocess.PIPE, stderr=subprocess.DEVNULL, text=True, env=env)
        self.n = 0

    def ask(self, pre, ph, src):
        self.p.stdin.write(json.dumps({"pre": pre, "ph": ph, "src": src}) + "\n")
        self.p.stdin.flush()
        import select
        ready, _, _ = select.select([self.p.stdout], [], [], 180)
        if not ready:
            self.p.kill()
            raise MachineryError(f"the pristine evaluation process did not answer within 180 s for `{src}`")
        line = self.p.stdout.readline()
        if not line:
            raise MachineryError("the pristine evaluation process ended")
        self.n += 1
        r = json.loads(line)
        if r.get("t") == "exc" and str(r.get("v", "")).startswith("machinery"):
            raise MachineryError(r["v"])
        return r

    def close(self):
        try:
            self.p.stdin.close()
            self.p.wait(timeout=10)
        except Exception:   # noqa
            self.p.kill()


def run(tier, seed):
    import logging
    logging.disable(logging.CRITICAL)
    ev = Evidence(PROP, tier, seed)
    vd = Verdicts(PROP, ev)
    thorough = tier == "thorough"
    d = stage_spec("kg/KgValues.tla", "kg/KgVerbs.tla", "kg/KgAdverbs.tla", "kg/KgEval.tla", "kg/KgMachine.tla")
    mod = os.path.join(d, "KgMachine.tla")

    def cfg(name, maxlen, record, prop=False, only="AllStmts"):
        p = os.path.join(d, name)
        with open(p, "w") as f:
            f.write(f"INIT Init\nNEXT Next\nCONSTANTS\n  MaxLen = {maxlen}\n  RecordHist = {'TRUE' if record else 'FALSE'}\n  Only <- {only}\n"
                    + ("PROPERTY Frame\n" if prop else "") + ("INVARIANT Emit\n" if record else "") + "CHECK_DEADLOCK FALSE\n")
        return p
    r0 = run_tlc(mod, cfg("design.cfg", 4 if not thorough else 5, False, prop=True), workers=16, timeout=3000)
    ev.add_tlc("KgMachine.tla: all environments reachable in 4 (thorough 5) statements, action property Frame", r0)
    if r0.violated:
        vd.violation({"what": f"design-level: KgMachine.tla violates {r0.violated}", "counterexample": r0.cex[:4000]})
    behs = []
    depth = 3 if not thorough else 4
    r1 = run_tlc(mod, cfg("tree.cfg", depth, True), workers=1, timeout=7200)
    ev.add_tlc(f"KgMachine.tla history tree to depth {depth}", r1, "emitted for replay")
    behs += [p for p in r1.prints if isinstance(p, list)]
    # every history of 4 (thorough 5) statements over the long-string statements and the alias b::a
    rs = run_tlc(mod, cfg("strings.cfg", 4 if not thorough else 5, True, only="StringStmts"), workers=1, timeout=7200)
    ev.add_tlc(f"KgMachine.tla: every history of {4 if not thorough else 5} statements over the alias b::a and the seven long-string statements", rs, "emitted for replay, all replayed")
    strs = [p for p in rs.prints if isinstance(p, list)]
    ev.cov["long_string_histories"] = len(strs)
    nsim = 400 if not thorough else 5000
    r2 = run_tlc(mod, cfg("sim.cfg", 9, True), workers=1, simulate=f"num={nsim}", depth=10, seed=seed + 21, timeout=7200)
    ev.add_tlc(f"KgMachine.tla -simulate num={nsim} depth 9", r2, "emitted for replay")
    sims = [p for p in r2.prints if isinstance(p, list)]
    rnd = random.Random(seed)
    rnd.shuffle(sims)
    behs += sims[:(600 if not thorough else 6000)]
    rnd.shuffle(behs)
    cap = 4000 if not thorough else 40000
    behs = behs[:cap] + strs
    if not behs:
        raise MachineryError("no behaviours emitted")
    common.use_repo()
    steps = 0
    reported = 0
    pristine = Pristine()
    drift = valdrift = 0
    modsteps = 0
    for h in behs:
        A = new_interp()
        for j, st in enumerate(h):
            pre, post = norm(st["pre"]), norm(st["post"])
            inmod = st["pre"]["ph"] > 0 or st["post"]["ph"] > 0
            modsteps += inmod
            src = render_stmt(st["stmt"])
            # B: fresh interpreter loaded with the specification's pre-state (scope by scope)
            B = new_interp()
            load(B, pre, st["pre"]["ph"])
            res = {}
            for name, k in (("A", A), ("B", B)):
                try:
                    res[name] = canon.canon(k(src))
                except BaseException as e:   # noqa
                    res[name] = {"t": "exc", "v": f"{type(e).__name__}: {str(e)[:60]}"}
            steps += 1
            bad = None
            sa, sb = snap(A), snap(B)
            ismod = st["stmt"]["k"] in ("modin", "modout")
            if st["stmt"]["k"] == "fail":
                # the statement must raise in both interpreters and leave the variable state alone
                ismod = True
                notraised = [name for name in ("A", "B") if res[name]["t"] != "exc"]
                if notraised:
                    raise MachineryError(f"statement {src} was expected to fail, {notraised} returned")
            shw = lambda r: canon.show(r) if r["t"] != "exc" else r["v"]   # noqa
            if not ismod and not canon.same(res["A"], res["B"]):
                bad = (f"the interpreter that ran the whole history returns {shw(res['A'])}, a fresh interpreter loaded with the same "
                       f"variable state returns {shw(res['B'])}")
            elif not same_env(sa, sb):
                bad = (f"variables after the step: {show_env(sa)} in the interpreter that ran the whole history, {show_env(sb)} in a fresh "
                       f"interpreter loaded with the same variable state")
            else:
                # A and B agree.  The VALUE of the statement against the specification is the business of C01/C02 (reference
                # semantics of the verbs); C04 judges the state: no variable but the assigned one may differ from the
                # specification's post-state (immutability of values: B shares nothing with earlier statements, but an
                # in-place update of an operand would show in A and in B alike).
                if not ismod and not canon.same(st["val"], res["A"]):
                    # A and B agree with each other but not with the specification: either the known value-level deviations of
                    # the verbs, or B is not as fresh as it looks (state global to the PROCESS, shared by every interpreter).  A
                    # process that has never evaluated anything decides.
                    if res["A"]["t"] != "exc":
                        rc_ = pristine.ask(pre, st["pre"]["ph"], src)
                        if not canon.same(res["A"], rc_):
                            bad = (f"the interpreter that ran the whole history (and a fresh interpreter in the same process) returns "
                                   f"{shw(res['A'])}, an interpreter in a process that has evaluated nothing else returns {shw(rc_)}")
                if bad is None and not ismod and not canon.same(st["val"], res["A"]):
                    valdrift += 1
                    if valdrift <= 3:
                        print(f"VALUE-DRIFT (not judged here, see C01): `{src}` returns {shw(res['A'])}, the specification gives "
                              f"{canon.show(st['val'])}", flush=True)
                    break
                if bad is None and not same_env(post, sa):
                    why = f"variables after the step {show_env(sa)}, the specification gives {show_env(post)}"
                    if inmod:
                        drift += 1      # the module lookup rule is the implementation's: not a verdict
                        if drift <= 3:
                            print(f"SPEC-DRIFT (not a verdict): `{src}` {why}", flush=True)
                        break
                    bad = why
            if bad:
                hist_src = [render_stmt(x["stmt"]) for x in h[:j + 1]]
                if reported < 40:
                    numeric_only = all(res[q]["t"] != "exc" and canon.same_mod(st["val"], res[q], numeric=True) for q in res)
                    vd.violation({"what": f"history {hist_src}: step {j + 1} `{src}` {bad} (A = interpreter that ran the whole history, "
                                          f"B = fresh interpreter loaded with the pre-state)",
                                  "history": hist_src, "step": j + 1, "stmt": src, "numeric_only": numeric_only})
                reported += 1
                break
    ev.cov["drifting_values_re_evaluated_in_a_pristine_process"] = pristine.n
    pristine.close()
    ev.cov["steps_in_module_phases"] = modsteps
    ev.cov["spec_drift_steps"] = drift
    ev.cov["value_drift_steps_left_to_C01"] = valdrift
    ev.cov["evaluations"] = steps
    ev.cov["traces_validated_against_impl"] = len(behs)
    ev.cov["distinct_nontrivial"] = sum(1 for h in behs if len({s["i"] for s in h}) >= 2)
    ev.cov["behaviours"] = len(behs)
    ev.cov["rule"] = (f"statement histories of KgMachine.tla over an alphabet of 45 statements (incl. module entry/exit and amend-in-depth of mixed lists): the complete tree to depth {depth} and "
                      f"seeded -simulate behaviours of length 9; every step executed in A (whole history) and B (fresh, pre-state "
                      f"loaded); non-trivial = at least two different statements")
    ev.sample({"history": [render_stmt(x["stmt"]) for x in behs[0]], "values": [canon.show(x["val"]) for x in behs[0]]})
    ev.cov["checker_cmd"] = "tlc KgMachine.tla ; replay into two KlongInterpreters per step"
    ev.assumptions += ["one module, entered and left once; inside/after the module the value predicted by the specification follows "
                       "klongpy's lookup rule and a disagreement with it alone is SPEC-DRIFT, not a verdict (A against B is judged)",
                       "dictionaries appear only inside a function body (reference semantics of dictionaries is C10)"]
    return vd.finish()


def replay(path):
    with open(path) as f:
        case = json.load(f)["case"]
    common.use_repo()
    k = new_interp()
    for s in case["history"]:
        try:
            print(s, "->", repr(k(s)))
        except Exception as e:
            print(s, "EXC", e)
    print(show_env(snap(k)))
    return 0
