"""C04 - evaluation depends only on program text and variable state; values are immutable.

spec/kg/KgMachine.tla   the interpreter as a transition system over a closed statement alphabet (assign literal, alias,
                        amend, amend a taken / reversed / indexed / reshaped / transposed sub-list, join, drop, functions whose
                        bodies contain list and dictionary literals, adverb expression, repeated identical texts)

TLC explores the statement histories (exhaustive tree to depth 3, -simulate to depth 9), checks the frame condition on the
model and emits every behaviour with the value of each statement and the environment after it.  Each behaviour is executed
twice by real interpreters: A runs the whole history (and so carries parse cache, compiled-expression caches, mutated AST
nodes and shared NumPy buffers); B is fresh for every step and is loaded with the specification's pre-state.  After every
step the result and the snapshot of ALL variables of A and of B must equal the specification's.
"""
import json
import os
import random

import common
import canon
import kgeval
from common import Evidence, Verdicts, run_tlc, stage_spec, MachineryError

PROP = "C04"
PRELUDE = ["f1::{[t];t::[1 2 3];t:=x,0}", "g1::{[q];q:::{[1 2]};q,x,,x;#q}", "h1::{[t];t::!4;t:=x,1}"]
NAMES = ["a", "b", "c", "d", "e"]


def render_stmt(s):
    if s["k"] == "assign":
        return f"{s['n']}::{render_expr(s['e'])}"
    return render_expr(s["e"])


def render_expr(e):
    if e["k"] == "callf":
        return f"{e['f']}({render_expr(e['a'])})"
    if e["k"] == "dy":
        return f"({render_expr(e['a'])}){e['op']}({render_expr(e['b'])})"
    if e["k"] == "mo":
        return f"{e['op']}({render_expr(e['a'])})"
    return kgeval.render_ast(e)


def new_interp():
    from klongpy import KlongInterpreter
    k = KlongInterpreter()
    for p in PRELUDE:
        k(p)
    return k


def snap(k):
    from klongpy.core import KGSym
    out = {}
    for n in NAMES:
        try:
            v = k[n]
        except KeyError:
            continue
        c = canon.canon(v)
        if c["t"] == "y" and "".join(chr(q) for q in c["v"]) == n:
            continue
        out[n] = c
    return out


def same_env(spec_env, real_env):
    if set(spec_env) != set(real_env):
        return False
    return all(canon.same(spec_env[n], real_env[n]) for n in spec_env)


def run(tier, seed):
    import logging
    logging.disable(logging.CRITICAL)
    ev = Evidence(PROP, tier, seed)
    vd = Verdicts(PROP, ev)
    thorough = tier == "thorough"
    d = stage_spec("kg/KgValues.tla", "kg/KgVerbs.tla", "kg/KgAdverbs.tla", "kg/KgEval.tla", "kg/KgMachine.tla")
    mod = os.path.join(d, "KgMachine.tla")

    def cfg(name, maxlen, record, prop=False):
        p = os.path.join(d, name)
        with open(p, "w") as f:
            f.write(f"INIT Init\nNEXT Next\nCONSTANTS\n  MaxLen = {maxlen}\n  RecordHist = {'TRUE' if record else 'FALSE'}\n"
                    + ("PROPERTY Frame\n" if prop else "") + ("INVARIANT Emit\n" if record else "") + "CHECK_DEADLOCK FALSE\n")
        return p
    r0 = run_tlc(mod, cfg("design.cfg", 4 if not thorough else 5, False, prop=True), workers=16, timeout=3000)
    ev.add_tlc("KgMachine.tla: all environments reachable in 4 (thorough 5) statements, action property Frame", r0)
    if r0.violated:
        vd.violation({"what": f"design-level: KgMachine.tla violates {r0.violated}", "counterexample": r0.cex[:4000]})
    behs = []
    depth = 3 if not thorough else 4
    r1 = run_tlc(mod, cfg("tree.cfg", depth, True), workers=1, timeout=7200)
    ev.add_tlc(f"KgMachine.tla history tree to depth {depth}", r1, "emitted for replay")
    behs += [p for p in r1.prints if isinstance(p, list)]
    nsim = 400 if not thorough else 5000
    r2 = run_tlc(mod, cfg("sim.cfg", 9, True), workers=1, simulate=f"num={nsim}", depth=10, seed=seed + 21, timeout=7200)
    ev.add_tlc(f"KgMachine.tla -simulate num={nsim} depth 9", r2, "emitted for replay")
    sims = [p for p in r2.prints if isinstance(p, list)]
    rnd = random.Random(seed)
    rnd.shuffle(sims)
    behs += sims[:(600 if not thorough else 6000)]
    rnd.shuffle(behs)
    cap = 4000 if not thorough else 40000
    behs = behs[:cap]
    if not behs:
        raise MachineryError("no behaviours emitted")
    common.use_repo()
    steps = 0
    reported = 0
    for h in behs:
        A = new_interp()
        for j, st in enumerate(h):
            for key in ("pre", "post"):          # ToJson prints an empty function as []
                if isinstance(st[key], list):
                    st[key] = {}
            src = render_stmt(st["stmt"])
            # B: fresh interpreter loaded with the specification's pre-state
            B = new_interp()
            for n, v in st["pre"].items():
                B(f"{n}::{canon.render(v)}")
            res = {}
            for name, k in (("A", A), ("B", B)):
                try:
                    res[name] = canon.canon(k(src))
                except BaseException as e:   # noqa
                    res[name] = {"t": "exc", "v": f"{type(e).__name__}: {str(e)[:60]}"}
            steps += 1
            bad = None
            for name, k in (("A", A), ("B", B)):
                if not canon.same(st["val"], res[name]):
                    bad = f"{name}: result {canon.show(res[name]) if res[name]['t'] != 'exc' else res[name]['v']}, the specification gives {canon.show(st['val'])}"
                    break
                if not same_env(st["post"], snap(k)):
                    got = {n: canon.show(v) for n, v in snap(k).items()}
                    want = {n: canon.show(v) for n, v in st["post"].items()}
                    bad = f"{name}: variables after the step {got}, the specification gives {want}"
                    break
            if bad:
                hist_src = [render_stmt(x["stmt"]) for x in h[:j + 1]]
                if reported < 40:
                    numeric_only = all(res[n]["t"] != "exc" and canon.same_mod(st["val"], res[n], numeric=True) for n in res)
                    vd.violation({"what": f"history {hist_src}: step {j + 1} `{src}` {bad} (A = interpreter that ran the whole history, "
                                          f"B = fresh interpreter loaded with the pre-state)",
                                  "history": hist_src, "step": j + 1, "stmt": src, "numeric_only": numeric_only})
                reported += 1
                break
    ev.cov["evaluations"] = steps
    ev.cov["traces_validated_against_impl"] = len(behs)
    ev.cov["distinct_nontrivial"] = sum(1 for h in behs if len({s["i"] for s in h}) >= 2)
    ev.cov["behaviours"] = len(behs)
    ev.cov["rule"] = (f"statement histories of KgMachine.tla over an alphabet of 29 statements: the complete tree to depth {depth} and "
                      f"seeded -simulate behaviours of length 9; every step executed in A (whole history) and B (fresh, pre-state "
                      f"loaded); non-trivial = at least two different statements")
    ev.sample({"history": [render_stmt(x["stmt"]) for x in behs[0]], "values": [canon.show(x["val"]) for x in behs[0]]})
    ev.cov["checker_cmd"] = "tlc KgMachine.tla ; replay into two KlongInterpreters per step"
    ev.assumptions += ["module switches and tables are not in the statement alphabet yet",
                       "dictionaries appear only inside a function body (reference semantics of dictionaries is C10)"]
    return vd.finish()


def replay(path):
    with open(path) as f:
        case = json.load(f)["case"]
    common.use_repo()
    k = new_interp()
    for s in case["history"]:
        try:
            print(s, "->", repr(k(s)))
        except Exception as e:
            print(s, "EXC", e)
    print({n: repr(k[n]) for n in NAMES if n in [str(x) for x, _ in k._context]})
    return 0
