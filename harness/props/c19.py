"""C19 - a table holds exactly the rows inserted into it, in the documented order.

spec/store/TableAbs.tla   the abstract table (list of rows, optional index) as a monitor
spec/store/Table.tla      implementation-shaped model: _df + insert buffer + commit-on-read
spec/store/TableTrace.tla validation of operation logs recorded through the Klong surface

1. TLC checks Table.tla (switches = the tree after the fixes) against TableAbs for all operation histories
   up to the bound: buffering must be unobservable (invariant Good).
2. TLC emits histories (exhaustive to depth 3, -simulate deeper); each is executed through the Klong surface
   (.table, .insert, t?"c", #t, .schema, .index, .rindex, t,"d",,v, db("select * from T")) and every
   observation is recorded.
3. The recorded logs are validated by TLC against TableAbs (verdict); model prediction vs. observation = drift.
"""
import json
import logging
import os

import common
from common import Evidence, Verdicts, run_tlc, stage_spec, MachineryError

PROP = "C19"

STR_ORDER = ["a", "o", "p", "q", "s", "t", "u", "v", "w", "x", "y", "z"]


def cell(v):
    if isinstance(v, str):
        return {"s": "s:" + v, "r": 100000 + STR_ORDER.index(v)}
    x = float(v)
    t = str(int(x)) if x == int(x) else repr(x)
    return {"s": "n:" + t, "r": int(round(x * 10))}


def row(*vals):
    return [cell(v) for v in vals]


COLS0 = ["a", "b", "c"]
ROWS0 = [(1, 2.5, "x"), (2, 3.5, "y"), (3, 4.5, "z")]
INSERT_ROWS = [(4, 5.5, "w"), (2, 9.5, "q"), (4, 7.5, "v"), (0, 1.5, "p"), (3, 0.5, "a")]   # (3,"a"): ties the largest first key component
BATCHES = [[(5, 6.5, "u"), (5, 8.5, "t")], [(6, 7.5, "s"), (0, 0.5, "o")]]
INDEX_CHOICES = [["a"], ["a", "c"], ["c", "a"]]      # incl. key columns in another order than the table's
READ_COLS = ["a", "c", "nope"]
NEWCOL = "d"
NEWVALS = [10, 20, 30, 40, 50, 60, 70, 80, 90, 100]


def tla(v):
    if isinstance(v, dict):
        return "[" + ", ".join(f"{k} |-> {tla(x)}" for k, x in v.items()) + "]"
    if isinstance(v, (list, tuple)):
        return "<<" + ", ".join(tla(x) for x in v) + ">>"
    if isinstance(v, str):
        return '"' + v + '"'
    return str(v)


def write_mc(d, maxops, record, switches=(True, True, True)):
    with open(os.path.join(d, "MCTable.tla"), "w") as f:
        f.write("---- MODULE MCTable ----\nEXTENDS Table\n")
        f.write("MCCols0 == " + tla(COLS0) + "\n")
        f.write("MCRows0 == " + tla([row(*r) for r in ROWS0]) + "\n")
        f.write("MCInsertRows == {" + ", ".join(tla(row(*r)) for r in INSERT_ROWS) + "}\n")
        f.write("MCBatches == {" + ", ".join(tla([row(*r) for r in b]) for b in BATCHES) + "}\n")
        f.write("MCIndexChoices == {" + ", ".join(tla(c) for c in INDEX_CHOICES) + "}\n")
        f.write("MCNewVals == " + tla([cell(v) for v in NEWVALS]) + "\n")
        f.write("MCReadCols == {" + ", ".join(tla(c) for c in READ_COLS) + "}\n")
        f.write("====\n")
    cfg = os.path.join(d, f"MCTable_{maxops}_{int(record)}_{''.join(str(int(x)) for x in switches)}.cfg")
    b = lambda x: "TRUE" if x else "FALSE"   # noqa
    lines = ["INIT Init", "NEXT Next", "CONSTANTS", "  Cols0 <- MCCols0", "  Rows0 <- MCRows0",
             "  InsertRows <- MCInsertRows", "  Batches <- MCBatches", "  IndexChoices <- MCIndexChoices",
             f'  NewColName = "{NEWCOL}"', "  NewColVals <- MCNewVals", "  ReadCols <- MCReadCols",
             f"  MaxOps = {maxops}", f"  GetCommits = {b(switches[0])}", f"  SetCommits = {b(switches[1])}",
             f"  DedupBuffer = {b(switches[2])}", f"  RecordHist = {b(record)}",
             "INVARIANT Good", "CHECK_DEADLOCK FALSE"]
    if record:
        lines.append("INVARIANT Emit")
    with open(cfg, "w") as f:
        f.write("\n".join(lines) + "\n")
    return os.path.join(d, "MCTable.tla"), cfg


# --------------------------------------------------------------------------------------- driver

def klong_row(cells):
    out = []
    for c in cells:
        kind, txt = c["s"].split(":", 1)
        out.append('"%s"' % txt if kind == "s" else txt)
    return "[" + " ".join(out) + "]"


def obs_cell(v):
    import numpy as np
    if isinstance(v, str):
        return "s:" + v
    if isinstance(v, (bool, np.bool_)):
        return "b:" + str(v)
    if isinstance(v, (int, float, np.integer, np.floating)):
        x = float(v)
        return "n:" + (str(int(x)) if x == int(x) else repr(x))
    return "?:" + type(v).__name__


def seq_obs(xs):
    return {"k": "seq", "v": list(xs)}


ERR = {"k": "error", "v": 0}


class TableDriver:
    def __init__(self):
        common.use_repo()
        from klongpy import KlongInterpreter
        self.k = KlongInterpreter()
        self.k('.py("klongpy.db")')

    def create(self):
        k = self.k
        k("e::[]")
        for j, c in enumerate(COLS0):
            vals = [r[j] for r in ROWS0]
            lit = "[" + " ".join('"%s"' % v if isinstance(v, str) else repr(v) for v in vals) + "]"
            k(f'e::e,,"{c}",,{lit}')
        k("T::.table(e)")
        self.ncols = len(COLS0)
        self.have_db = False

    def run(self, hist):
        from klongpy.core import KLONG_UNDEFINED
        import numpy as np
        k = self.k
        self.create()
        events = [{"op": "create", "cols": COLS0, "rows": [row(*r) for r in ROWS0]}]
        excs = []
        for e in hist:
            op = e["op"]
            ev = {kk: vv for kk, vv in e.items() if kk != "obs"}
            try:
                if op == "insert":
                    k(f".insert(T;{klong_row(e['row'])})")
                elif op == "insertb":
                    k(".insert(T;[" + " ".join(klong_row(r) for r in e["rows"]) + "])")
                elif op == "col":
                    r = k(f'T?"{e["name"]}"')
                    ev["obs"] = {"k": "undef", "v": 0} if r is KLONG_UNDEFINED else seq_obs(obs_cell(x) for x in list(r))
                elif op == "count":
                    ev["obs"] = {"k": "int", "v": int(k("#T"))}
                elif op == "schema":
                    ev["obs"] = seq_obs(str(x) for x in k(".schema(T)"))
                elif op == "index":
                    r = k(".index(T;[" + " ".join('"%s"' % c for c in e["cols"]) + "])")
                    ev["obs"] = seq_obs(str(x) for x in r)
                elif op == "rindex":
                    ev["obs"] = {"k": "int", "v": int(k(".rindex(T)"))}
                elif op == "addcol":
                    vals = "[" + " ".join(c["s"].split(":", 1)[1] for c in e["vals"]) + "]"
                    k(f'T,"{e["name"]}",,{vals}')
                    ev["obs"] = {"k": "ok", "v": 0}
                    self.ncols += 1
                elif op == "sql":
                    if not self.have_db:
                        k('db::.db(:{},"T",,T)')
                        self.have_db = True
                    r = np.asarray(k('db("select * from T")'), dtype=object)
                    flat = [obs_cell(x) for x in r.reshape(-1)]
                    if len(flat) % self.ncols == 0:
                        ev["obs"] = seq_obs([flat[i:i + self.ncols] for i in range(0, len(flat), self.ncols)])
                    else:
                        ev["obs"] = seq_obs([flat])
            except BaseException as ex:   # noqa
                excs.append(f"{op}: {type(ex).__name__}: {str(ex)[:80]}")
                if op in ("insert", "insertb"):
                    ev["op"] = "insert_failed"
                ev["obs"] = ERR
            events.append(ev)
        return events, excs


def run(tier, seed):
    logging.disable(logging.CRITICAL)
    ev = Evidence(PROP, tier, seed)
    vd = Verdicts(PROP, ev)
    thorough = tier == "thorough"
    d = stage_spec("store/TableAbs.tla", "store/Table.tla", "store/TableTrace.tla")

    # 1. design level: buffering unobservable
    mod, cfg = write_mc(d, 6 if not thorough else 8, False)
    r = run_tlc(mod, cfg, workers=16, coverage=True, timeout=7200)
    ev.add_tlc("Table.tla vs TableAbs.tla (refinement: buffering unobservable), all histories up to the bound", r, "invariant Good")
    if r.violated:
        vd.violation({"what": f"design-level: Table.tla violates {r.violated}", "counterexample": r.cex[:8000]})
    for act in ("Insert", "InsertB", "ReadCol", "Count", "Schema", "Index", "RIndex", "AddCol", "Sql"):
        if r.coverage.get(act, (0, 0))[1] == 0:
            raise MachineryError(f"vacuity: action {act} never taken")
    # negative control: the pinned tree's model (no commit in get/set, no dedup) must violate
    modn, cfgn = write_mc(d, 4, False, switches=(False, False, False))
    rn = run_tlc(modn, cfgn, workers=8, timeout=1200)
    ev.cov["negative_control_pinned_model_violates"] = rn.violated
    if not rn.violated:
        raise MachineryError("negative control: the model of the pinned Table does not violate Good")

    # 2. histories
    hists = []
    mod, cfg = write_mc(d, 3 if not thorough else 4, True)
    r2 = run_tlc(mod, cfg, workers=1, timeout=7200)
    ev.add_tlc("Table.tla history tree (exhaustive)", r2, "emitted for replay")
    hists += [p for p in r2.prints if isinstance(p, dict) and "hist" in p]
    nsim = 1200 if not thorough else 10000
    mod, cfg = write_mc(d, 7, True)
    r3 = run_tlc(mod, cfg, workers=1, simulate=f"num={nsim}", depth=9, seed=seed + 3, timeout=7200)
    ev.add_tlc(f"Table.tla -simulate num={nsim} depth 7", r3, "emitted for replay")
    hists += [p for p in r3.prints if isinstance(p, dict) and "hist" in p]
    seen, uniq = set(), []
    for h in hists:
        key = common.jhash([[{kk: vv for kk, vv in e.items() if kk != "obs"} for e in h["hist"]]])
        if key not in seen:
            seen.add(key)
            uniq.append(h)
    hists = uniq
    if not hists:
        raise MachineryError("no histories emitted")

    # 3. replay through the Klong surface
    drv = TableDriver()
    traces, meta = [], {}
    drifted = set()
    drift_info = {}
    for h in hists:
        events, excs = drv.run(h["hist"])
        tid = len(traces)
        traces.append({"tid": tid, "events": events})
        meta[tid] = (h, excs)
        pred = [e.get("obs") for e in h["hist"]]
        real = [e.get("obs") for e in events[1:]]
        if pred != real:
            drifted.add(tid)
            drift_info[tid] = {"ops": [e["op"] for e in h["hist"]], "predicted": pred, "real": real, "exceptions": excs}
    tf = os.path.join(d, "tables.json")
    with open(tf, "w") as f:
        json.dump(traces, f)
    cfgt = os.path.join(d, "trace.cfg")
    with open(cfgt, "w") as f:
        f.write("INIT Init\nNEXT Next\nCHECK_DEADLOCK FALSE\n")
    rt = run_tlc(os.path.join(d, "TableTrace.tla"), cfgt, workers=1, extra_env={"TRACE_FILE": tf}, timeout=3000)
    ev.add_tlc("TableTrace.tla", rt, "one state per recorded operation log")
    verdicts = {v["tid"]: v for v in rt.prints if isinstance(v, dict) and "tid" in v}
    if len(verdicts) != len(traces):
        raise MachineryError(f"trace validation returned {len(verdicts)} verdicts for {len(traces)} logs")
    judged = 0
    drift = 0
    for tid, v in verdicts.items():
        if v["live"]:
            judged += 1
            if tid in drifted:      # drift is only meaningful inside the domain the property defines
                drift += 1
        if v["bad"] == "ok":
            continue
        h, excs = meta[tid]
        ops = [(e["op"], e.get("name") or e.get("cols") or "") for e in h["hist"]]
        vd.violation({"what": f"table log violates {v['bad']} at operation {v['at'] - 1} of {ops}; exceptions {excs}",
                      "clause": v["bad"], "hist": h["hist"], "observed": traces[tid]["events"], "exceptions": excs})
    ev.cov["traces_validated_against_impl"] = len(traces)
    ev.cov["evaluations"] = len(traces)
    ev.cov["distinct_nontrivial"] = sum(1 for h in hists if any(e["op"] in ("insert", "insertb") for e in h["hist"])
                                        and any(e["op"] in ("col", "count", "sql", "index") for e in h["hist"]))
    ev.cov["judged_to_the_end"] = judged
    ev.cov["spec_drift"] = drift
    ev.cov["spec_drift_samples"] = [drift_info[t] for t in sorted(drifted) if verdicts[t]["live"]][:3]
    ev.cov["rule"] = ("operation histories of Table.tla (exhaustive to depth 3/4 over a menu of 16 operations, -simulate to depth 7) "
                      "executed through the Klong surface; non-trivial = contains an insert and a later read")
    if drift:
        print(f"SPEC-DRIFT property={PROP}: {drift} of {len(traces)} logs differ from Table.tla's predicted observations")
    for t in traces[:2]:
        ev.sample(t["events"])
    ev.cov["checker_cmd"] = "tlc Table.tla (MCTable) ; tlc TableTrace.tla"
    ev.assumptions += ["integer/real kind of numeric cells is not compared (the property does not state it)",
                       "index creation on non-unique key values is outside the property's domain: such histories are not judged further",
                       "rows inserted after a column was added are not generated"]
    return vd.finish()


def replay(path):
    with open(path) as f:
        case = json.load(f)["case"]
    drv = TableDriver()
    events, excs = drv.run(case["hist"])
    for e in events:
        print(e)
    print(excs)
    return 0
