"""C17 - a completed key-value set survives a crash; an interrupted one harms no other.

spec/store/Durable.tla       persistence model + durability rule (monitor, evaluated at every crash point)
spec/store/DurableImpl.tla   implementation-shaped model of set -> update_file(use_fsync) -> _write_file
spec/store/DurableTrace.tla  validation of system-call logs recorded from a real process
spec/store/DurableConc.tla   concurrent setters: update_file's critical section, write jobs on the executor, refused writes

1. TLC checks DurableImpl.tla (buffered write, flush, fsync, close) against the rule for sequences of sets.
2. A real process performs sequences of sets under `strace -f`; the system calls on the store directory
   become Durable events; TLC folds them through the monitor: after every event (= crash point) every
   allowed crash image (durable content, or any unsynced kernel state incl. every byte prefix of an
   unsynced write) must give every other key its last completed value, and a returned set must be durable.
3. The crash images TLC computed are materialised on disk (sampled byte prefixes) and opened by a fresh real
   KeyValueStorage: every key other than the one in flight must read its last completed value.
"""
import json
import logging
import os
import shutil
import tempfile

import common
import fsrec
from common import Evidence, Verdicts, run_tlc, stage_spec, MachineryError

PROP = "C17"
VALUES = {"v1": "42", "v2": '"hello world, this is a string value"', "v3": '[1 2 [3 "x"] "yy" 4.5]',
          "big": '20000#"abcdefghij"'}
PROGRAMS = [
    [("a", "v1")],
    [("a", "v2"), ("a", "v3")],
    [("a", "v1"), ("b", "v2"), ("a", "v3")],
    [("d/e/f", "v3"), ("a", "v2"), ("d/e/f", "v1")],
    [("a", "big"), ("b", "v1"), ("a", "v1")],
]
# (group members use strings and lists only: klong["v1"] hands Python an int whose serialisation differs from the Klong value's)
# concurrent setters (beyond the sequential quantifier of C17; see spec/store/DurableConc.tla): ["||", [key, value], ...]
PROGRAMS += [
    [("a", "v1"), ["||", ["a", "big"], ["a", "v2"]], ("b", "v3")],
    [["||", ["c", "big"], ["c", "v3"], ["c", "v2"]], ["||", ["c", "v2"], ["c", "big"]]],
]
# keys that differ only in Unicode composition are different keys; the model and TLC see the ASCII aliases
REAL = {"kc": "caf\u00e9", "kd": "cafe\u0301", "u/kc": "u/\u00e5ngstr\u00f6m", "u/kd": "u/a\u030angstro\u0308m"}
ALIAS = {v: k_ for k_, v in REAL.items()}
PROGRAMS += [
    [("kc", "v1"), ("kd", "v2"), ("kc", "v3")],
    [("u/kd", "v2"), ("u/kc", "big"), ("a", "v1"), ("u/kd", "v3")],
]


def real(key):
    return REAL.get(key, key)


def alias(name):
    if name in ALIAS:
        return ALIAS[name]
    return name if name.isascii() else "nonascii:" + name.encode("unicode_escape").decode()


# a process killed inside a set on entering fsync (the only call of the set that the interpreter's start-up does not make as well,
# so that the injection hits the set), then the SAME set retried by a new process on the same
# directory - nothing was lost yet (a kill is not a power failure) - and other sets
PROGRAMS += [
    [["kill", "a", "v1", "fsync"], ("a", "v1"), ("b", "v2")],
    [["kill", "a", "v3", "fsync"], ("b", "v1"), ("a", "v3")],
    [["kill", "d/e/f", "big", "fsync"], ("d/e/f", "big"), ("d/e/f", "v1")],
]
PROGRAMS_THOROUGH = PROGRAMS + [
    [["||", ["a", "big"], ["a", "v3"]], ("a", "v1"), ["||", ["a", "v3"], ["a", "big"], ["a", "v2"]]],
    [("p/q", "v2"), ["||", ["p/q", "big"], ["p/q", "v3"]], ["||", ["p/q", "v3"], ["p/q", "big"]], ["||", ["p/q", "big"], ["p/q", "v2"]]],
    [("a", "v3"), ("b", "big"), ("b", "v2"), ("a", "big")],
    [("x/y", "v1"), ("x/z", "v2"), ("x/y", "big"), ("x/z", "v3")],
    [("a", "v1"), ("a", "v1"), ("a", "v2"), ("b", "v2")],
]


def stored_bytes():
    """Serialisation of each value exactly as the store writes it (set through the Klong surface)."""
    common.use_repo()
    from klongpy import KlongInterpreter
    k = KlongInterpreter()
    k('.py("klongpy.db")')
    root = tempfile.mkdtemp(prefix="kvb-", dir=common.scratch())
    k["kvdir"] = root
    k("kvs::.kvs(kvdir)")
    out = []
    for name, src in VALUES.items():
        k(f"{name}::{src}")
        k(f'kvs,"s_{name}",,{name}')
        with open(os.path.join(root, f"s_{name}"), "rb") as f:
            out.append((name, f.read()))
    shutil.rmtree(root, ignore_errors=True)
    return out, k


def record(prog, vbytes):
    """A program may start with ["kill", key, value, syscall]: a FIRST process starts that set and is killed when it enters the
    system call (what it wrote stays in the page cache, unsynced); a second process then runs the rest of the program on the same
    directory.  The two logs are one trace."""
    root = tempfile.mkdtemp(prefix="kvr-", dir=common.scratch())
    try:
        events, paths, notes = [], [], []
        if prog and prog[0][0] == "kill":
            _, kkey, kval, sc = prog[0]
            lines = fsrec.strace_lines(root, {"values": VALUES, "sets": [(real(kkey), kval)]}, kill_at=sc)
            if lines is None:
                return None, None, None      # the set never enters that call (the other programs judge a set without fsync)
            ev1, p1, n1 = fsrec.to_events(fsrec.parse(lines, root), root, vbytes)
            if not any(e["ev"] == "mark" and e["kind"] == "begin" for e in ev1) or any(e["ev"] == "mark" and e["kind"] == "return" for e in ev1):
                return None, None, None      # the call was entered outside the set (before it began or after it returned)
            events += [dict(e, i=0) if e["ev"] == "mark" else e for e in ev1]
            paths += p1
            notes += n1
            prog = [(kkey, kval)] + list(prog[1:])
            rest, shift = prog[1:], 1
        else:
            rest, shift = prog, 0
        rprog = [([it[0]] + [[real(m[0]), m[1]] for m in it[1:]]) if it[0] == "||" else (real(it[0]), it[1]) for it in rest]
        lines = fsrec.strace_lines(root, {"values": VALUES, "sets": rprog})
        calls = fsrec.parse(lines, root)
        ev2, p2, n2 = fsrec.to_events(calls, root, vbytes)
        events += [dict(e, i=e["i"] + shift) if e["ev"] == "mark" else e for e in ev2]
        paths = sorted(set(paths) | set(p2))
        notes += n2
    finally:
        shutil.rmtree(root, ignore_errors=True)
    names = [n for n, _ in vbytes]
    out = []
    for e in events:
        if e["ev"] == "mark":
            if e["kind"] == "end":
                continue
            if e["kind"] in ("gbegin", "greturn"):
                members = prog[e["i"]][1:]
                key = members[0][0]
                if e["kind"] == "gbegin":
                    out.append({"ev": "gbegin", "key": key})
                else:
                    which = int(e["extra"][0])       # which member's value the live store shows after all have returned
                    if which == 0:
                        raise MachineryError(f"after the concurrent sets {members} the live store shows none of their values")
                    vid = names.index(members[which - 1][1]) + 1
                    out.append({"ev": "greturn", "key": key, "v": vid, "size": len(vbytes[vid - 1][1])})
                continue
            key, val = prog[e["i"]]
            if e["kind"] == "begin":
                vid = names.index(val) + 1
                out.append({"ev": "begin", "key": key, "v": vid, "size": len(vbytes[vid - 1][1])})
            else:
                out.append({"ev": "return", "key": key})
        else:
            e2 = dict(e)
            for fld in ("path", "to"):
                if fld in e2:
                    e2[fld] = alias(e2[fld])
            out.append(e2)
    paths = [alias(p) for p in paths]
    for e2 in out:
        if e2["ev"] == "dirsync":       # the files directly inside the synced directory
            e2["files"] = [p for p in sorted(set(paths) | {k for it in prog for k in ([m[0] for m in it[1:]] if it[0] == "||" else [it[0]])})
                           if os.path.dirname(p) == e2["path"]]
    keys = sorted({(it[1][0] if it[0] == "||" else it[0]) for it in prog} | set(paths))
    return out, keys, notes


def materialise_and_recover(prog, keys, prefixes, events, vbytes, vd, k, tag):
    """Open a fresh real store on every (sampled) crash image and read every key."""
    common.use_repo()
    from klongpy.db.sys_fn_kvs import KeyValueStorage
    from klongpy.core import KLONG_UNDEFINED
    import klongpy.db.sys_fn_kvs  # noqa
    checked = 0
    expected_text = {}
    from props.c16 import repr_value
    for vid, (name, data) in enumerate(vbytes, start=1):
        expected_text[vid] = repr_value(k[name])

    def content(img):
        v, n = img
        if v < 0:
            return None
        if v == 0:
            return b""
        if v > len(vbytes):
            return b"\x00" * n
        return vbytes[v - 1][1][:n]

    for j, pf in enumerate(prefixes):
        inflight = pf["inflight"]
        # other keys: every image must be the completed value (TLC already judged); materialise dur of others and
        # sampled images of the in-flight key
        imgs_inflight = [None]
        if inflight:
            allimgs = sorted(tuple(x) for x in pf["images"][inflight])
            pick = allimgs if len(allimgs) <= 6 else [allimgs[0], allimgs[1], allimgs[len(allimgs) // 2], allimgs[-2], allimgs[-1]]
            imgs_inflight = pick
        for im in imgs_inflight:
            root = tempfile.mkdtemp(prefix="img-", dir=common.scratch())
            try:
                for p in keys:
                    imgs = sorted(tuple(x) for x in pf["images"][p])
                    choice = im if (p == inflight and im is not None) else imgs[0]
                    c = content(choice)
                    if c is None:
                        continue
                    fp = os.path.join(root, real(p))
                    os.makedirs(os.path.dirname(fp), exist_ok=True)
                    with open(fp, "wb") as f:
                        f.write(c)
                store = KeyValueStorage(root_path=root)
                for p in keys:
                    if p == inflight or p in (pf.get("torn") or []):
                        continue            # the key being written, or one whose set was interrupted and not repeated yet
                    want = tuple(pf["done"][p])
                    try:
                        got = store.get(real(p))
                    except BaseException as e:   # noqa
                        vd.violation({"what": f"recovery: reading key {p} failed with {type(e).__name__} in a crash image "
                                              f"taken after event {j + 1} ({events[j]}) while {inflight or 'no key'} was being written",
                                      "clause": "RecoveryFails", "prog": prog, "prefix": j + 1})
                        continue
                    if want[0] < 0:
                        ok = got is KLONG_UNDEFINED
                    else:
                        ok = repr_value(got) == expected_text.get(want[0])
                    checked += 1
                    if not ok:
                        vd.violation({"what": f"recovery: key {p} reads {repr_value(got)[:60]} instead of its last completed value "
                                              f"(value id {want[0]}) in a crash image after event {j + 1} ({events[j]})",
                                      "clause": "RecoveryWrongValue", "prog": prog, "prefix": j + 1})
            finally:
                shutil.rmtree(root, ignore_errors=True)
    return checked


def run(tier, seed):
    logging.disable(logging.CRITICAL)
    ev = Evidence(PROP, tier, seed, level="fault_enumeration")
    vd = Verdicts(PROP, ev)
    thorough = tier == "thorough"
    d = stage_spec("store/Durable.tla", "store/DurableTrace.tla", "store/DurableImpl.tla", "store/DurableConc.tla")

    # 1. design level
    with open(os.path.join(d, "MCDur.tla"), "w") as f:
        f.write('''---- MODULE MCDur ----
EXTENDS DurableImpl
MCSize == (1 :> 2) @@ (2 :> 3) @@ (3 :> 9)
MCProg == <<[key |-> "a", v |-> 1], [key |-> "b", v |-> 3], [key |-> "a", v |-> 2], [key |-> "b", v |-> 1], [key |-> "a", v |-> 3]>>
====
''')
    cfgp = os.path.join(d, "MCDur.cfg")
    with open(cfgp, "w") as f:
        f.write('''INIT Init
NEXT Next
CONSTANTS
  Keys = {"a", "b"}
  Vals = {1, 2, 3}
  SizeOf <- MCSize
  BufSize = 4
  Prog <- MCProg
  FlushBeforeFsync = TRUE
  UseFsync = TRUE
INVARIANT Good
''')
    r = run_tlc(os.path.join(d, "MCDur.tla"), cfgp, workers=4, coverage=True, timeout=600)
    ev.add_tlc("DurableImpl.tla (flush before fsync; small and larger-than-buffer values; overwrite; two keys)", r,
               "invariant Good = durability rule at every crash point")
    if r.violated:
        vd.violation({"what": f"design-level: DurableImpl.tla violates {r.violated}", "counterexample": r.cex[:6000]})
    # vacuity companion: without the flush the rule must fail (the monitor is able to say no)
    with open(cfgp) as f:
        neg = f.read().replace("FlushBeforeFsync = TRUE", "FlushBeforeFsync = FALSE")
    cfgn = os.path.join(d, "MCDurNeg.cfg")
    with open(cfgn, "w") as f:
        f.write(neg)
    rn = run_tlc(os.path.join(d, "MCDur.tla"), cfgn, workers=4, timeout=600)
    ev.cov["negative_control_no_flush_violates"] = rn.violated
    if not rn.violated:
        raise MachineryError("negative control: the model without flush-before-fsync does not violate the rule")

    # 1b. concurrent setters: the code as it is (a refused write is dropped) and a correct retry satisfy the rule and
    # every setter returns; a retry that forgets use_fsync does not (negative control)
    with open(os.path.join(d, "MCConc.tla"), "w") as f:
        f.write('''---- MODULE MCConc ----
EXTENDS DurableConc
MCSize == (1 :> 2) @@ (2 :> 3) @@ (3 :> 9)
MCSetters == <<[key |-> "a", v |-> 1], [key |-> "a", v |-> 2], [key |-> "b", v |-> 3], [key |-> "a", v |-> 3]>>
====
''')
    for retry in ("none", "fsync", "nofsync"):
        cfgc = os.path.join(d, f"MCConc_{retry}.cfg")
        with open(cfgc, "w") as f:
            f.write(f'''SPECIFICATION Spec
CONSTANTS
  Keys = {{"a", "b"}}
  Vals = {{1, 2, 3}}
  SizeOf <- MCSize
  Setters <- MCSetters
  Retry = "{retry}"
INVARIANT Good
INVARIANT OneWriterPerFile
PROPERTY AllReturn
''')
        rc = run_tlc(os.path.join(d, "MCConc.tla"), cfgc, workers=8, timeout=900)
        if retry == "nofsync":
            ev.cov["negative_control_retry_without_fsync_violates"] = rc.violated
            if not rc.violated:
                raise MachineryError("negative control: a retry that forgets use_fsync does not violate the rule")
            continue
        ev.add_tlc(f"DurableConc.tla (four concurrent setters, three on one key; refused write: {retry})", rc,
                   "invariants Good (group durability at every crash point), OneWriterPerFile; liveness AllReturn")
        if rc.violated:
            vd.violation({"what": f"design-level: DurableConc.tla (Retry={retry}) violates {rc.violated}", "counterexample": rc.cex[:6000]})

    # 2. real process under strace
    vbytes, k = stored_bytes()
    progs = PROGRAMS_THOROUGH if thorough else PROGRAMS
    traces = []
    for prog in progs:
        events, keys, notes = record(prog, vbytes)
        if events is None:
            ev.cov["kill_scenarios_that_could_not_be_built"] = ev.cov.get("kill_scenarios_that_could_not_be_built", 0) + 1
            continue
        if any(e["ev"] == "unmodelled" for e in events):
            raise MachineryError(f"the store used a file-system call the persistence model does not cover: {notes}")
        if not any(e["ev"] == "otrunc" for e in events) or not any(e["ev"] == "write" for e in events):
            raise MachineryError(f"recorder saw no open/write on the store directory for {prog}")
        traces.append({"tid": len(traces), "paths": keys, "events": events, "prog": prog, "notes": notes})
    tf = os.path.join(d, "fs.json")
    with open(tf, "w") as f:
        json.dump([{"tid": t["tid"], "paths": t["paths"], "events": t["events"]} for t in traces], f)
    cfgt = os.path.join(d, "trace.cfg")
    with open(cfgt, "w") as f:
        f.write("INIT Init\nNEXT Next\nCHECK_DEADLOCK FALSE\n")
    rt = run_tlc(os.path.join(d, "DurableTrace.tla"), cfgt, workers=1, extra_env={"TRACE_FILE": tf}, timeout=1200)
    ev.add_tlc("DurableTrace.tla (system-call logs of a real process)", rt, "rule evaluated after every event = at every crash point")
    verdicts = {v["tid"]: v for v in rt.prints if isinstance(v, dict) and "tid" in v}
    if len(verdicts) != len(traces):
        raise MachineryError(f"trace validation returned {len(verdicts)} verdicts for {len(traces)} logs")
    crash_points = 0
    images = 0
    recovered = 0
    for t in traces:
        v = verdicts[t["tid"]]
        crash_points += len(v["prefixes"])
        for pf in v["prefixes"]:
            images += sum(len(x) for x in pf["images"].values())
        if v["bad"] != "ok":
            e = t["events"][v["at"] - 1]
            vd.violation({"what": f"system-call log of sets {t['prog']} violates {v['bad']} at event {v['at']} {e}: "
                                  f"events {[(x['ev'], x.get('path') or x.get('key')) for x in t['events']]}",
                          "clause": v["bad"], "prog": t["prog"], "events": t["events"]})
        recovered += materialise_and_recover(t["prog"], t["paths"], v["prefixes"], t["events"], vbytes, vd, k, t["tid"])
    ev.cov["traces_validated_against_impl"] = len(traces)
    ev.cov["evaluations"] = crash_points
    ev.cov["distinct_nontrivial"] = crash_points
    ev.cov["crash_images_in_model"] = images
    ev.cov["recovery_reads_on_materialised_images"] = recovered
    ev.cov["rule"] = ("crash point = every prefix of the system-call log of every set in each sequence; at each, TLC evaluates "
                      "the rule over ALL crash images (durable content or any unsynced kernel state incl. every byte prefix of an "
                      "unsynced write); sampled images are materialised and read back by a fresh real store")
    for t in traces[:2]:
        ev.sample({"sets": t["prog"], "events": t["events"]})
    ev.cov["checker_cmd"] = "tlc DurableImpl.tla ; strace -f python ... ; tlc DurableTrace.tla"
    ev.assumptions += ["fsync(fd) makes the file's data and its directory entry (and directories created for it) durable",
                       "a crash loses any subset of unsynced state per file: durable content, any kernel state since the last "
                       "fsync, any byte prefix of an unsynced write",
                       "strace reports system calls in completion order",
                       "concurrent sets on one key (an extension beyond C17's sequential quantifier) are judged as a group: when "
                       "all have returned, the value the live store shows must be durable"]
    return vd.finish()


def replay(path):
    with open(path) as f:
        case = json.load(f)["case"]
    print(json.dumps(case, indent=1)[:6000])
    return 0
