"""C20 - web routes and websocket messages reach their Klong handler exactly once, intact.

spec/net/WebAbs.tla    the property as a monitor (HTTP routes, .webc, websocket delivery)
spec/net/Web.tla       generator of web histories (route tables x requests x redefinition x .webc)
spec/net/WebTrace.tla  validation of recorded histories

1. TLC enumerates histories of Web.tla (route tables = subsets of 3 GET and 2 POST paths; requests over 4 paths x 2 methods
   x 3 parameter dictionaries incl. non-ASCII and URL-encoded characters; a raising handler; redefinition; .webc).
2. Each history is executed against the REAL server started with .web on loopback (handlers are Klong functions
   that log through a Python callable); status, body and the handler log of every request are recorded.
3. Websocket: scripted message sequences over all JSON kinds are pushed through the real ws NetworkClient._listen
   (ExistingConnectionProvider + scripted socket, two virtual loops), values are sent through the connection;
   the .ws.m call log and the sent texts are recorded.
4. All recorded histories are judged by TLC against WebAbs.
"""
import asyncio
import http.client
import json
import logging
import os
import socket
import time
import urllib.parse

import common
from common import Evidence, Verdicts, run_tlc, stage_spec, MachineryError

PROP = "C20"
PARAMS = {"p0": {}, "p1": {"q": "1", "n": "two"}, "p2": {"ü": "a b&c=d", "k": "é/ü?%20"}}
class ScriptedFailure(Exception):
    pass


FAILURES = [RuntimeError, KeyError, IndexError, ScriptedFailure, OSError, ZeroDivisionError, AttributeError, LookupError, ValueError, TypeError]
GETS = ["/a", "/b", "/boom"]
POSTS = ["/a", "/c"]
REQ_PATHS = ["/a", "/b", "/c", "/boom", "/zz"]


def free_port():
    s = socket.socket()
    s.bind(("127.0.0.1", 0))
    p = s.getsockname()[1]
    s.close()
    return p


class WebLive:
    def __init__(self):
        common.use_repo()
        from klongpy.repl import create_repl
        self.k, self.loops = create_repl()
        self.k('.py("klongpy.web")')
        self.calls = []
        self.k["wlog"] = self.wlog
        self.k["wslow"] = self.wslow
        self.n = 0
        import threading
        self.slow_release = threading.Event()
        self.slow_entered = threading.Event()
        self.busy_done = 0

    def wslow(self, x):
        self.slow_entered.set()
        self.slow_release.wait(8)
        return "slow"

    def wlog(self, x, y, z):
        # x: "METHOD path", y: tag, z: parameter dictionary
        method, path = str(x).split(" ", 1)
        pid = "?"
        for name, d in PARAMS.items():
            if dict(z) == d:
                pid = name
        self.calls.append({"route": path, "method": method, "params": pid, "tag": str(y)})
        if path == "/boom":
            # "a handler that fails": the class of the failure varies from request to request
            self.nboom = getattr(self, "nboom", 0) + 1
            raise FAILURES[self.nboom % len(FAILURES)]("handler failure (scripted)")
        return f"{y}:{method}:{path}:{pid}"

    def hname(self, method, path):
        return "h" + method[0].lower() + path.strip("/").replace("/", "_") + f"n{self.n}"

    def define(self, method, path, tag):
        self.k(f'{self.hname(method, path)}::{{wlog("{method} {path}";"{tag}";x)}}')

    def start(self, gets, posts):
        self.n += 1
        self.port = free_port()
        self.k("wg:::{}")
        self.k("wp:::{}")
        for p in gets:
            self.define("GET", p, "v0")
            self.k(f'wg,"{p}",{self.hname("GET", p)}')
        for p in posts:
            self.define("POST", p, "v0")
            self.k(f'wp,"{p}",{self.hname("POST", p)}')
        self.k("hslow::{wslow(x)}")
        self.k('wg,"/slowx",hslow')          # outside the model's path set: only used to occupy the io loop
        self.k(f"wh::.web({self.port};wg;wp)")
        for _ in range(200):            # the listening socket is opened asynchronously
            try:
                s = socket.create_connection(("127.0.0.1", self.port), timeout=0.2)
                s.close()
                return
            except OSError:
                time.sleep(0.01)
        raise MachineryError("web server did not start")

    def request(self, method, path, pid):
        params = PARAMS[pid]
        before = len(self.calls)
        try:
            c = http.client.HTTPConnection("127.0.0.1", self.port, timeout=5)
            body, headers, url = None, {}, path
            if method == "GET" and params:
                url = path + "?" + urllib.parse.urlencode(params)
            if method == "POST":
                body = urllib.parse.urlencode(params)
                headers = {"Content-Type": "application/x-www-form-urlencoded"}
            c.request(method, url, body=body, headers=headers)
            r = c.getresponse()
            text = r.read().decode("utf8", "replace")
            c.close()
            status = r.status
        except (ConnectionRefusedError, ConnectionResetError, http.client.RemoteDisconnected, socket.timeout, OSError):
            status, text = 0, ""
        calls = self.calls[before:]
        return status, (text if status == 200 else ""), calls

    def webc(self):
        import contextlib
        import io
        with contextlib.redirect_stdout(io.StringIO()):
            r = self.k(".webc(wh)")
        return int(r)

    def webc_busy(self, hist):
        """.webc while a handler occupies the io loop.  Returns the recorded events: the webc event at the moment .webc
        returned and, when it returned while the handler was still running, the probe requests sent right then."""
        import threading
        gets = [e for e in hist if e["ev"] == "start"][0]["gets"]
        probe_path = gets[0] if gets else "/zz"
        self.slow_release.clear()
        self.slow_entered.clear()
        keep = http.client.HTTPConnection("127.0.0.1", self.port, timeout=10)
        keep.request("GET", "/zz")
        keep.getresponse().read()                      # keep-alive connection established before the shutdown
        out = {}

        def slow():
            try:
                c = http.client.HTTPConnection("127.0.0.1", self.port, timeout=10)
                c.request("GET", "/slowx")
                out["slow"] = c.getresponse().status
                c.close()
            except Exception as ex:   # noqa
                out["slow"] = type(ex).__name__
        ts = threading.Thread(target=slow, daemon=True)
        ts.start()
        if not self.slow_entered.wait(5):
            self.slow_release.set()
            raise MachineryError("slow handler was not entered")

        def closer():
            out["webc"] = self.webc()
        tw = threading.Thread(target=closer, daemon=True)
        tw.start()
        tw.join(1.6)
        events = []
        if not tw.is_alive():
            # .webc has returned although the handler is still running: the server is reported closed NOW
            events.append({"ev": "webc", "res": out.get("webc", -1), "busy": True, "returned_while_handler_running": True})
            res = {}

            def probe(name, conn):
                before = len(self.calls)
                try:
                    conn.request("GET", probe_path)
                    r = conn.getresponse()
                    r.read()
                    res[name] = r.status
                except Exception:   # noqa
                    res[name] = 0
            fresh = http.client.HTTPConnection("127.0.0.1", self.port, timeout=6)
            before = len(self.calls)
            tp = [threading.Thread(target=probe, args=("keepalive", keep), daemon=True),
                  threading.Thread(target=probe, args=("fresh", fresh), daemon=True)]
            for t in tp:
                t.start()
            time.sleep(0.3)
            self.slow_release.set()
            for t in tp:
                t.join(8)
            ts.join(8)
            calls = self.calls[before:]
            for name in ("keepalive", "fresh"):
                st = res.get(name, 0)
                events.append({"ev": "request", "method": "GET", "path": probe_path, "params": "p0", "status": st, "body": "",
                               "calls": calls if (st and calls) else [], "probe": name})
                calls = []
        else:
            self.slow_release.set()
            tw.join(10)
            ts.join(8)
            if tw.is_alive():
                raise MachineryError(".webc did not return after the handler was released")
            events.append({"ev": "webc", "res": out.get("webc", -1), "busy": True})
        try:
            keep.close()
        except Exception:   # noqa
            pass
        self.busy_done += 1
        return events

    def stop_if_up(self):
        try:
            h = self.k["wh"]
            if getattr(h, "runner", None) is not None:
                asyncio.run_coroutine_threadsafe(h.shutdown(), self.loops[0]).result(timeout=10)
        except Exception:
            pass

    def run(self, hist):
        events = []
        self.calls.clear()
        for e in hist:
            ev = e["ev"]
            if ev == "start":
                self.start(e["gets"], e["posts"])
                events.append({"ev": "start", "gets": e["gets"], "posts": e["posts"], "raising": e["raising"]})
            elif ev == "request":
                status, body, calls = self.request(e["method"], e["path"], e["params"])
                events.append({"ev": "request", "method": e["method"], "path": e["path"], "params": e["params"],
                               "status": status, "body": body,
                               "calls": calls})
            elif ev == "redef":
                self.define(e["method"], e["path"], e["tag"])
                events.append(dict(e))
            elif ev == "webc" and e.get("busy"):
                events += self.webc_busy(hist)
            elif ev == "webc":
                events.append({"ev": "webc", "res": self.webc()})
        self.stop_if_up()
        return events

    def close(self):
        from klongpy.repl import cleanup_repl
        self.stop_if_up()
        try:
            cleanup_repl(self.loops)
        except Exception:
            pass


# ------------------------------------------------------------------------------------------ websocket

WS_MESSAGES = [1, 2.5, "text ü", True, [None, 1], [1, 2, 3], [1, [2, "x"], {"k": [1, 2]}], {"a": 1, "b": {"c": [True, None]}}, [],
               {}, "", 0, [[1, 2], [3, 4]], -7]
WS_SEND = {"1": 1, "2.5": 2.5, '"str"': "str", "[1 2 3]": [1, 2, 3], '[1 [2 "a"]]': [1, [2, "a"]], ':{["k" 1] ["l" [1 2]]}': {"k": 1, "l": [1, 2]},
           "[]": [], '""': ""}


def jnorm(v):
    import numpy as np
    if isinstance(v, np.ndarray):
        return [jnorm(x) for x in v.tolist()] if v.dtype == object else v.tolist()
    if isinstance(v, (list, tuple)):
        return [jnorm(x) for x in v]
    if isinstance(v, dict):
        return {str(k): jnorm(x) for k, x in v.items()}
    if isinstance(v, (np.integer,)):
        return int(v)
    if isinstance(v, (np.floating,)):
        return float(v)
    if isinstance(v, np.bool_):
        return bool(v)
    return v


def run_ws(seqs):
    """Each seq: list of ("in", msg) / ("out", klong source).  Returns traces of WebAbs events."""
    common.use_repo()
    import websockets
    from vloop import VLoop
    from klongpy import KlongInterpreter
    import klongpy.ws.sys_fn_ws as ws
    traces = []
    for seq in seqs:
        io, kl = VLoop(), VLoop()
        k = KlongInterpreter()
        got, sent = [], []

        class Sock:
            def __init__(self):
                self.q = asyncio.Queue()
                self.closed = False

            async def recv(self):
                m = await self.q.get()
                if m is StopIteration:
                    raise websockets.exceptions.ConnectionClosed(None, None)
                return m

            async def send(self, m):
                sent.append(m)

            async def close(self):
                self.closed = True
        sock = Sock()
        import copy as _copy
        k["wslog"] = lambda x: got.append(_copy.deepcopy(x)) or 1

        def wstag(x):
            if isinstance(x, dict):
                x["tagged-by-handler"] = len(got)
            elif isinstance(x, list):
                x.append("tagged-by-handler")
            return 1
        k["wstag"] = wstag
        # the handler records the message and then UPDATES it when it is a dictionary (handlers own what they receive:
        # the next message, even one with identical text, must arrive untouched)
        k(".ws.m::{x;wslog(y);wstag(y)}")
        prov = ws.ExistingConnectionProvider(sock, "ws://scripted")
        if not hasattr(prov, "is_open"):       # only ClientConnectionProvider defines it; the scripted socket is always open
            prov.is_open = lambda: True
        nc = ws.NetworkClient.create_from_conn_provider(io, kl, k, prov)
        nc.running = True
        io.create_task(nc._run(None, None, None, None))
        k["wsh"] = nc

        def settle():
            for _ in range(50):
                a = io.run_ready()
                b = kl.run_ready()
                if a == 0 and b == 0 and not io._wake.is_set() and not kl._wake.is_set():
                    break
                io._wake.clear()
                kl._wake.clear()
        settle()
        events = []
        nin = 0
        nhandled = 0
        for kind, payload in seq:
            if kind == "in":
                nin += 1
                events.append({"ev": "ws_in", "k": nin})
                sock.q.put_nowait(json.dumps(payload))
                settle()
                while nhandled < len(got):
                    nhandled += 1
                    want = [p for kk, p in seq if kk == "in"][nhandled - 1] if nhandled <= nin else None
                    events.append({"ev": "ws_handled", "k": nhandled,
                                   "same": json.dumps(jnorm(got[nhandled - 1]), sort_keys=True) == json.dumps(want, sort_keys=True)})
            else:
                before = len(sent)
                try:
                    k(f"wsh({payload})")
                except BaseException:   # noqa
                    pass
                settle()
                ok = len(sent) == before + 1
                if ok:
                    try:
                        ok = json.dumps(json.loads(sent[-1]), sort_keys=True) == json.dumps(WS_SEND[payload], sort_keys=True)
                    except Exception:
                        ok = False
                events.append({"ev": "ws_out", "same": bool(ok)})
        settle()
        while nhandled < len(got):
            nhandled += 1
            events.append({"ev": "ws_handled", "k": nhandled, "same": False})
        events.append({"ev": "ws_quiet"})
        sock.q.put_nowait(StopIteration)
        settle()
        for lp in (io, kl):
            try:
                lp.close()
            except Exception:
                pass
        traces.append(events)
    return traces


def run(tier, seed):
    logging.disable(logging.CRITICAL)
    import traceback
    traceback.print_exception = lambda *a, **k: None
    import random
    ev = Evidence(PROP, tier, seed)
    vd = Verdicts(PROP, ev)
    thorough = tier == "thorough"
    d = stage_spec("net/WebAbs.tla", "net/Web.tla", "net/WebTrace.tla")
    hists = []
    for maxops, sim in ((3, None), (6, 400 if not thorough else 5000)):
        cfg = os.path.join(d, f"web_{maxops}.cfg")
        with open(cfg, "w") as f:
            f.write("INIT Init\nNEXT Next\nCONSTANTS\n"
                    "  GetPaths = {%s}\n  PostPaths = {%s}\n  Raising = {\"/boom\"}\n  ReqPaths = {%s}\n  Params = {%s}\n  MaxOps = %d\n"
                    "INVARIANT Good\nINVARIANT Emit\nCHECK_DEADLOCK FALSE\n" % (
                        ", ".join('"%s"' % p for p in GETS), ", ".join('"%s"' % p for p in POSTS),
                        ", ".join('"%s"' % p for p in REQ_PATHS), ", ".join('"%s"' % p for p in PARAMS), maxops))
        r = run_tlc(os.path.join(d, "Web.tla"), cfg, workers=1, simulate=(f"num={sim}" if sim else None),
                    depth=(maxops + 1 if sim else None), seed=seed + 13, timeout=3000)
        ev.add_tlc(f"Web.tla histories of {maxops} events" + (f" (-simulate num={sim})" if sim else " (exhaustive)"), r,
                   "invariant Good: the generator's own expectations satisfy WebAbs")
        if r.violated:
            vd.violation({"what": f"design-level: Web.tla violates {r.violated}", "counterexample": r.cex[:4000]})
        hists += [p for p in r.prints if isinstance(p, list)]
    seen, uniq = set(), []
    for h in hists:
        key = common.jhash(h)
        if key not in seen:
            seen.add(key)
            uniq.append(h)
    hists = uniq
    rnd = random.Random(seed)
    rnd.shuffle(hists)
    cap = 700 if not thorough else 6000
    hists = hists[:cap]
    if not hists:
        raise MachineryError("no web histories emitted")
    live = WebLive()
    traces = []
    quota = 3 if not thorough else 40
    nb = 0
    keep = []
    for h in hists:                      # a busy .webc costs ~2 s of wall clock: only a quota of them is replayed
        if any(e["ev"] == "webc" and e.get("busy") for e in h):
            if nb >= quota:
                continue
            nb += 1
        keep.append(h)
    hists = keep
    ev.cov["webc_while_handler_running_histories"] = nb
    try:
        for h in hists:
            traces.append({"tid": len(traces), "events": live.run(h), "kind": "http"})
    finally:
        live.close()
    n_http = len(traces)
    # websocket sequences
    seqs = []
    for i in range(40 if not thorough else 400):
        n = rnd.randint(1, 5)
        seq = []
        for _ in range(n):
            if rnd.random() < 0.7:
                seq.append(("in", rnd.choice(WS_MESSAGES)))
            else:
                seq.append(("out", rnd.choice(list(WS_SEND))))
        seqs.append(seq)
    seqs.append([("in", m) for m in WS_MESSAGES])
    seqs.append([("in", {"T": "hb"}), ("in", {"T": "hb"}), ("in", [1, 2]), ("in", [1, 2]), ("in", {"T": "hb"}), ("in", {"a": {"b": 1}}), ("in", {"a": {"b": 1}})])
    seqs.append([("out", s) for s in WS_SEND])
    for evs in run_ws(seqs):
        traces.append({"tid": len(traces), "events": evs, "kind": "ws"})
    tf = os.path.join(d, "web.json")
    with open(tf, "w") as f:
        json.dump([{"tid": t["tid"], "events": t["events"]} for t in traces], f)
    cfgt = os.path.join(d, "trace.cfg")
    with open(cfgt, "w") as f:
        f.write("INIT Init\nNEXT Next\nCHECK_DEADLOCK FALSE\n")
    rt = run_tlc(os.path.join(d, "WebTrace.tla"), cfgt, workers=1, extra_env={"TRACE_FILE": tf}, timeout=3000)
    ev.add_tlc("WebTrace.tla", rt, "one state per recorded history")
    verdicts = {v["tid"]: v for v in rt.prints if isinstance(v, dict) and "tid" in v}
    if len(verdicts) != len(traces):
        raise MachineryError(f"trace validation returned {len(verdicts)} verdicts for {len(traces)} histories")
    for tid, v in verdicts.items():
        if v["bad"] != "ok":
            t = traces[tid]
            vd.violation({"what": f"{t['kind']} history violates {v['bad']} at event {v['at']}: {t['events'][v['at'] - 1]} in "
                                  f"{[(e['ev'], e.get('method'), e.get('path')) for e in t['events']]}",
                          "clause": v["bad"], "events": t["events"], "kind": t["kind"]})
    ev.cov["traces_validated_against_impl"] = len(traces)
    ev.cov["evaluations"] = len(traces)
    ev.cov["http_histories"] = n_http
    ev.cov["websocket_sequences"] = len(traces) - n_http
    ev.cov["distinct_nontrivial"] = sum(1 for t in traces if len([e for e in t["events"] if e["ev"] in ("request", "ws_handled")]) >= 2)
    ev.cov["rule"] = ("histories of Web.tla (exhaustive to 3 events, -simulate to 6) against a real server on loopback; websocket "
                      "sequences (seeded) over all JSON kinds through the real listen loop; non-trivial = >= 2 requests / messages")
    for t in traces[:1] + traces[n_http:n_http + 1]:
        ev.sample(t["events"])
    ev.cov["checker_cmd"] = "tlc Web.tla ; tlc WebTrace.tla"
    ev.assumptions += ["HTTP client = http.client on loopback; aiohttp/websockets libraries trusted",
                       "websocket: the listen loop, JSON codec and dispatch to .ws.m are real, the socket is scripted"]
    return vd.finish()


def replay(path):
    with open(path) as f:
        case = json.load(f)["case"]
    print(json.dumps(case, indent=1)[:4000])
    return 0
