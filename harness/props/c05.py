"""C05 - compiled and interpreted execution of an expression are indistinguishable.

spec/kg/KgCache.tla   implementation-shaped model of the three caches around the expression compiler (text-keyed
                      _compiled_cache cleared on rebinding, per-node memo never cleared, admission by value class):
                      invariant TopNeverStale; produces the histories evaluation position x rebinding route x class
spec/kg/KgEval.tla    the oracle for every evaluation of every history (TLC evaluates it)

Each history of KgCache.tla is instantiated with expressions of the compilable grammar (arithmetic, comparison, negate,
reduce, scan over variables a, b and numeric literals) and concrete values per class, and executed by two real interpreters:
one as shipped, one with klongpy.interpreter.compile_expr answering None (tree-walking only).  Every evaluation must give the
same value in both - structure, elements, integer/real kind; an error or :undefined in one must be one in the other - and,
where KgEval defines the value, that value.
"""
import json
import os
import random

import common
import canon
import kgeval
from kgeval import lit, var, I, R, L, S
from common import Evidence, Verdicts, run_tlc, stage_spec, MachineryError

PROP = "C05"
VALUES = {"int": {"a": I(3), "b": I(2)}, "real": {"a": R(5, 2), "b": R(1, 2)},
          "ivec": {"a": L(I(1), I(2), I(3)), "b": L(I(4), I(5), I(6))},
          "rvec": {"a": L(R(1, 2), R(3, 2), R(5, 2)), "b": L(R(3, 2), R(1, 2), R(2, 1))},
          "mat": {"a": L(L(I(1), I(2)), L(I(3), I(4))), "b": L(L(I(5), I(6)), L(I(7), I(8)))},
          "empty": {"a": L(), "b": L()},
          # reals whose squares, sums and products are whole numbers (integer/real kind of a compiled result)
          "wreal": {"a": R(2, 1), "b": R(3, 1)},
          "wrvec": {"a": L(R(1, 1), R(2, 1), R(3, 1)), "b": L(R(2, 1), R(2, 1), R(4, 1))},
          "str": {"a": S("xy"), "b": S("q")}}
# the same classes with zeros among the elements (division by zero, zero to a power, comparisons with zero): chosen for a third
# of the histories
VALUES_ZERO = {"int": {"a": I(0), "b": I(0)}, "real": {"a": R(0, 1), "b": R(0, 1)},
               "ivec": {"a": L(I(0), I(2), I(0)), "b": L(I(0), I(0), I(3))},
               "rvec": {"a": L(R(0, 1), R(3, 2), R(0, 1)), "b": L(R(0, 1), R(0, 1), R(2, 1))},
               "mat": {"a": L(L(I(0), I(2)), L(I(3), I(0))), "b": L(L(I(0), I(0)), L(I(7), I(8)))},
               "wreal": {"a": R(0, 1), "b": R(3, 1)}}
# ... and with integers whose powers leave the range in which a double is exact (2^53): chosen for a sixth of the histories
VALUES_BIG = {"int": {"a": I(7), "b": I(20)}, "ivec": {"a": L(I(7), I(3), I(11)), "b": L(I(20), I(34), I(17))}}
# ... and with integers at the edge of 64 bits (no oracle: TLC's integers have 32 bits): a tenth of the histories
VALUES_HUGE = {"int": {"a": I(2 ** 62), "b": I(2 ** 62)}}
CLASSES = list(VALUES)
ADMITTED = [c for c in CLASSES if c != "str"]


NESTED_MARK = "nested-reduction"


def is_nested_reduction(e):
    def has(e, top):
        if e["k"] == "ad" and e["a"]["k"] == "var" and not top:
            return True
        return any(isinstance(e.get(key), dict) and has(e[key], False) for key in ("a", "b"))
    return has(e, True)


def expressions(rnd, n_deep):
    a, b = var("a"), var("b")
    leaves = [a, b, lit(I(2)), lit(R(1, 2))]
    ar = ["+", "-", "*", "%", "^", "=", "<", ">"]
    out = []
    for op in ar:
        for x, y in ((a, b), (a, lit(I(2))), (lit(I(2)), a), (a, a), (a, lit(R(1, 2)))):
            out.append({"k": "dy", "op": op, "a": x, "b": y})
    out.append({"k": "mo", "op": "-", "a": a})
    for adv, ops in (("over", ["+", "*", "|", "&"]), ("scan", ["+", "*", "|", "&"])):
        for op in ops:
            out.append({"k": "ad", "adv": adv, "op": op, "a": a})
    d1 = list(out)
    # reductions and scans of a VARIABLE nested inside a larger expression (the per-node caches see them as inner nodes)
    nested = []
    for adv in ("over", "scan"):
        for op in ("+", "*", "|"):
            red = {"k": "ad", "adv": adv, "op": op, "a": a}
            nested += [{"k": "dy", "op": "%", "a": red, "b": lit(I(2))}, {"k": "dy", "op": "+", "a": red, "b": b},
                       {"k": "dy", "op": "*", "a": lit(I(2)), "b": red}, {"k": "mo", "op": "-", "a": red},
                       {"k": "dy", "op": "-", "a": red, "b": {"k": "ad", "adv": "over", "op": "+", "a": b}},
                       # a reduction (a NumPy scalar, not a Python number) divided by / raised to a variable that may be zero
                       {"k": "dy", "op": "%", "a": red, "b": b}, {"k": "dy", "op": "%", "a": b, "b": red}, {"k": "dy", "op": "^", "a": red, "b": b}]
    out += nested
    # the dyadic forms a f/b and a f\b (Over-Neutral, Scan-Over-Neutral) over variables: next to the grammar the compiler accepts
    for adv in ("over", "scan"):
        for op in ("+", "*", "|"):
            out += [{"k": "ad2", "adv": adv, "op": op, "a": b, "b": a}, {"k": "ad2", "adv": adv, "op": op, "a": a, "b": b},
                    {"k": "ad2", "adv": adv, "op": op, "a": lit(I(2)), "b": a}]
    # powers of powers (results beyond 2^53 from small operands)
    out += [{"k": "dy", "op": "^", "a": {"k": "dy", "op": "^", "a": a, "b": a}, "b": a}, {"k": "dy", "op": "^", "a": a, "b": {"k": "dy", "op": "*", "a": b, "b": lit(I(2))}}]
    # comparisons as BOTH operands of an arithmetic operator (truth values must be numbers, not booleans)
    cmps = [{"k": "dy", "op": ">", "a": a, "b": lit(I(1))}, {"k": "dy", "op": "<", "a": a, "b": b}, {"k": "dy", "op": "=", "a": a, "b": b}]
    for op in ("+", "*", "-"):
        for c1 in cmps:
            for c2 in cmps:
                out.append({"k": "dy", "op": op, "a": c1, "b": c2})
    out.append({"k": "ad", "adv": "over", "op": "+", "a": {"k": "dy", "op": "+", "a": cmps[0], "b": cmps[1]}})
    # negation directly over a binary operation of two different variables (and as operand of a further operation)
    for op in ("-", "+", "*", "%"):
        for x, y in ((a, b), (b, a)):
            inner = {"k": "dy", "op": op, "a": x, "b": y}
            out.append({"k": "mo", "op": "-", "a": inner})
            out.append({"k": "dy", "op": "+", "a": {"k": "mo", "op": "-", "a": inner}, "b": a})
    deep = []
    while len(deep) < n_deep:
        k = rnd.random()
        if k < 0.5:
            e = {"k": "dy", "op": rnd.choice(ar[:5]), "a": rnd.choice(d1 + leaves), "b": rnd.choice(d1 + leaves)}
        elif k < 0.8:
            e = {"k": "ad", "adv": rnd.choice(["over", "scan"]), "op": rnd.choice(["+", "*", "|", "&"]),
                 "a": rnd.choice([x for x in d1 if x["k"] == "dy"])}
        else:
            e = {"k": "mo", "op": "-", "a": rnd.choice(d1)}
        if kgeval.vars_of(e):
            deep.append(e)
    return out + deep


def realify(e):
    """the expression with every integer literal replaced by the real of the same value"""
    if e["k"] == "lit":
        v = e["v"]
        return lit(R(v["v"], 1)) if v["t"] == "i" else e
    out = dict(e)
    for key in ("a", "b"):
        if key in out and isinstance(out[key], dict):
            out[key] = realify(out[key])
    return out


def subst(e, m):
    if e["k"] == "var":
        return var(m.get(e["n"], e["n"]))
    out = dict(e)
    for key in ("a", "b"):
        if key in out and isinstance(out[key], dict):
            out[key] = subst(out[key], m)
    return out


def py_value(v):
    import numpy as np
    if v["t"] == "i":
        return int(v["v"])
    if v["t"] == "r":
        return v["v"][0] / v["v"][1]
    if v["t"] == "s":
        return "".join(chr(c) for c in v["v"])
    if v["t"] == "l":
        vals = [py_value(x) for x in v["v"]]
        return np.asarray(vals) if vals else np.asarray([], dtype=float)
    raise ValueError(v)


def is_huge(k):
    """an integer of magnitude >= 2^61 is bound to a or b"""
    import numpy as np
    for v in ("a", "b"):
        try:
            x = k[v]
        except Exception:   # noqa
            continue
        if isinstance(x, (int, np.integer)) and not isinstance(x, bool) and abs(int(x)) >= 2 ** 61:
            return True
    return False


def py_plain(v):
    """the value as plain Python data: nested lists of ints / floats, str"""
    if v["t"] == "l":
        return [py_plain(x) for x in v["v"]]
    return py_value(v)


def run(tier, seed):
    import logging
    logging.disable(logging.CRITICAL)
    ev = Evidence(PROP, tier, seed)
    vd = Verdicts(PROP, ev)
    thorough = tier == "thorough"
    rnd = random.Random(seed)
    d = stage_spec("kg/KgCache.tla")
    with open(os.path.join(d, "MCCache.tla"), "w") as f:
        f.write('---- MODULE MCCache ----\nEXTENDS KgCache\n'
                'MCStartA == [v \\in {"a","b"} |-> IF v = "a" THEN "ivec" ELSE "int"]\n'
                'MCStartB == [v \\in {"a","b"} |-> IF v = "a" THEN "mat" ELSE "real"]\n====\n')
    hists = []
    for start in ("MCStartA", "MCStartB"):
        def cfg(name, maxops, invs, classes=None):
            p = os.path.join(d, name)
            cl = classes or CLASSES
            with open(p, "w") as f:
                f.write("INIT Init\nNEXT Next\nCONSTANTS\n  Classes = {%s}\n  Admitted = {%s}\n  Start <- %s\n  MaxOps = %d\n%sCHECK_DEADLOCK FALSE\n"
                        % (", ".join('"%s"' % c for c in cl), ", ".join('"%s"' % c for c in cl if c in ADMITTED), start, maxops,
                           "".join(f"INVARIANT {i}\n" for i in invs)))
            return p
        mod = os.path.join(d, "MCCache.tla")
        r = run_tlc(mod, cfg("design.cfg", 4, ["TopNeverStale"]), workers=16, timeout=3000)
        ev.add_tlc(f"KgCache.tla ({start}) all histories to depth 4 over 9 value classes, invariant TopNeverStale", r)
        if thorough:      # depth 5 over the classes that differ in admission and shape (the full product is ~10^9 states)
            r5 = run_tlc(mod, cfg("design5.cfg", 5, ["TopNeverStale"], classes=["int", "ivec", "mat", "str"] if start == "MCStartA" else ["real", "rvec", "mat", "str"]),
                         workers=16, timeout=6000)
            ev.add_tlc(f"KgCache.tla ({start}) all histories to depth 5 over 4 value classes, invariant TopNeverStale", r5)
            if r5.violated:
                vd.violation({"what": f"design-level: KgCache.tla violates {r5.violated}", "counterexample": r5.cex[:4000], "part": "design"})
        if r.violated:
            vd.violation({"what": f"design-level: KgCache.tla violates {r.violated}", "counterexample": r.cex[:4000], "part": "design"})
        rn = run_tlc(mod, cfg("neg.cfg", 4, ["MemoNeverStale"]), workers=8, timeout=3000)
        ev.cov["node_memo_serves_stale_code_in_model"] = rn.violated
        r2 = run_tlc(mod, cfg("tree.cfg", 2, ["Emit"]), workers=1, timeout=3000)
        hists += [p for p in r2.prints if isinstance(p, list)]
        nsim = 250 if not thorough else 3000
        r3 = run_tlc(mod, cfg("sim.cfg", 6, ["Emit"]), workers=1, simulate=f"num={nsim}", depth=7, seed=seed + 31, timeout=3000)
        ev.add_tlc(f"KgCache.tla ({start}) -simulate num={nsim} depth 6 (plus the exhaustive tree to depth 2)", r3)
        sims = [p for p in r3.prints if isinstance(p, list)]
        rnd.shuffle(sims)
        hists += [(start, h) for h in sims[:(250 if not thorough else 3000)]] + [(start, h) for h in []]
    hists = [h if isinstance(h, tuple) else ("MCStartA", h) for h in hists]
    # focused exhaustive tree: two classes (an atom class and a list class), all histories of 4 steps; kept: those that evaluate
    # twice at the same position with a rebinding of a in between (atom <-> list), replayed with the nested-reduction expressions
    focus = []
    for atom, lst in (("int", "ivec"), ("wreal", "wrvec")):
        with open(os.path.join(d, "MCCache.tla"), "w") as f:
            f.write('---- MODULE MCCache ----\nEXTENDS KgCache\n'
                    'MCStartF == [v \\in {"a","b"} |-> IF v = "a" THEN "%s" ELSE "%s"]\n====\n' % (lst, atom))
        p = os.path.join(d, "focus.cfg")
        with open(p, "w") as f:
            f.write('INIT Init\nNEXT Next\nCONSTANTS\n  Classes = {"%s", "%s"}\n  Admitted = {"%s", "%s"}\n  Start <- MCStartF\n  MaxOps = 4\n'
                    'INVARIANT Emit\nCHECK_DEADLOCK FALSE\n' % (atom, lst, atom, lst))
        rf = run_tlc(os.path.join(d, "MCCache.tla"), p, workers=1, timeout=3000)
        ev.add_tlc(f"KgCache.tla focused tree ({atom}/{lst}): all histories of 4 steps", rf)
        for h in [q for q in rf.prints if isinstance(q, list)]:
            evs = [i for i, st in enumerate(h) if st["a"] != "rebind"]
            ok = any(h[i]["a"] == h[j]["a"] and any(st["a"] == "rebind" and st["v"] == "a" for st in h[i + 1:j])
                     for i in evs for j in evs if i < j)
            if ok:
                focus.append(((lst, atom), h))
    rnd.shuffle(focus)
    focus = focus[:(160 if not thorough else 3000)]
    ev.cov["focused_histories"] = len(focus)
    # keep histories that evaluate at least once after a rebinding or twice in the same position
    exprs = expressions(rnd, 24 if not thorough else 300)
    starts = {"MCStartA": {"a": "ivec", "b": "int"}, "MCStartB": {"a": "mat", "b": "real"}}
    for (lst, atom), h in focus:
        starts[(lst, atom)] = {"a": lst, "b": atom}
    # plan all evaluations, ask TLC for the prescribed values in one run
    plans, cases = [], []
    rnd.shuffle(hists)
    per_hist = 3 if not thorough else 6
    nest = [e for e in exprs if is_nested_reduction(e)]
    jobs = [(start, h, rnd.sample(exprs, per_hist)) for (start, h) in hists[:(500 if not thorough else 5000)]]
    jobs += [(start, h, rnd.sample(nest, 4 if not thorough else 8) + rnd.sample(exprs, 2)) for (start, h) in focus]
    # powers over two integer atoms whose result leaves the range in which a double is exact, in every evaluation position,
    # evaluated twice
    a_, b_ = var("a"), var("b")
    pw = [{"k": "dy", "op": "^", "a": a_, "b": b_}, {"k": "dy", "op": "^", "a": {"k": "dy", "op": "^", "a": b_, "b": lit(I(2))}, "b": a_},
          {"k": "dy", "op": "+", "a": {"k": "dy", "op": "^", "a": a_, "b": b_}, "b": lit(I(1))},
          {"k": "dy", "op": "^", "a": a_, "b": {"k": "dy", "op": "-", "a": b_, "b": lit(I(1))}}]
    starts["intint"] = {"a": "int", "b": "int"}
    jobs = [(st_, h_, es_, None) for (st_, h_, es_) in jobs]
    for pos in ("evaltop", "evalfn", "evallam", "evalarg"):
        jobs.append(("intint", [{"a": pos, "compiled": True, "stale": False}, {"a": pos, "compiled": True, "stale": False}], pw, VALUES_BIG))
    for (start, h, es, forced) in jobs:
        for e in es:
            cls = dict(starts[start])
            steps = []
            q = rnd.random()
            alt = VALUES_ZERO if q < 1 / 3 else VALUES_BIG if q < 1 / 2 else VALUES_HUGE if q < 0.6 else {}
            if forced is not None:
                alt = forced
            valof = (lambda c, v, alt=alt: alt.get(c, VALUES[c])[v])
            for st in h:
                if st["a"] == "rebind":
                    cls[st["v"]] = st["c"]
                    steps.append(("rebind", st["v"], st["c"], st["route"]))
                else:
                    env = {v: valof(cls[v], v) for v in ("a", "b")}
                    huge = any(x["t"] == "i" and abs(x["v"]) >= 2 ** 31 for x in env.values())
                    cid = None if huge else len(cases) + 1
                    if not huge:
                        cases.append({"id": cid, "ast": e, "env": env})
                    steps.append(("eval", st["a"], cid, st["compiled"], "huge" if huge else st["stale"]))
            plans.append((start, e, steps, valof))
    vals = kgeval.tlc_eval(cases, ev, "KgEvalCases.tla: prescribed value of every evaluation of every history")
    common.use_repo()
    import klongpy.interpreter as ki
    from klongpy import KlongInterpreter
    if not hasattr(ki.compile_expr, "_klverif"):
        orig = ki.compile_expr

        def ce(ast, klong):
            return None if getattr(klong, "_klverif_nocompile", False) else orig(ast, klong)
        ce._klverif = True
        ki.compile_expr = ce
    nevals = ncmp = both_off_spec = in_domain = 0
    seen = set()
    for (start, e, steps, valof) in plans:
        src = kgeval.render_ast(e)
        lam = kgeval.render_ast(subst(e, {"a": "x", "b": "y"}))
        uses_b = "b" in kgeval.vars_of(e)
        outs = {}
        for mode in ("compiled", "interpreted"):
            k = KlongInterpreter()
            k._klverif_nocompile = (mode == "interpreted")
            cls = dict(starts[start])
            for v in ("a", "b"):
                k(f"{v}::{canon.render(valof(cls[v], v))}")
            k(f"f::{{{src}}}")
            res = []
            for st in steps:
                if st[0] == "rebind":
                    _, v, c, route = st
                    val = valof(c, v)
                    if route == "top":
                        k(f"{v}::{canon.render(val)}")
                    elif route == "pylist":
                        k[v] = py_plain(val)
                    elif route == "py":
                        k[v] = py_value(val)
                    else:
                        k(f"{{{v}::{canon.render(val)}}}()")
                    continue
                _, pos, cid, _, flag = st
                text = {"evaltop": src, "evalfn": "f()", "evallam": f"{{{lam}}}(a;b)" if uses_b else f"{{{lam}}}(a)",
                        "evalarg": f"*,({src})"}[pos]
                try:
                    got = canon.canon(k(text))
                    if got["t"] == "u":
                        got = {"t": "fail", "v": "undefined"}
                except BaseException as ex:   # noqa
                    got = {"t": "fail", "v": type(ex).__name__}
                res.append((pos, cid, text, got, is_huge(k)))
            # the same interpreter then evaluates the MIRROR of the expression (a and b exchanged): code compiled for one
            # expression must not be served for another one of the same shape over the same variables
            if uses_b:
                mtext = kgeval.render_ast(subst(e, {"a": "b", "b": "a"}))
                try:
                    got = canon.canon(k(mtext))
                    if got["t"] == "u":
                        got = {"t": "fail", "v": "undefined"}
                except BaseException as ex:   # noqa
                    got = {"t": "fail", "v": type(ex).__name__}
                res.append(("mirror", None, mtext, got, is_huge(k)))
            # ... and the expression with its integer literals written as reals (2 -> 2.0): same value, other kind - code
            # generated for one must not be served for the other
            ktext = kgeval.render_ast(realify(e))
            if ktext != src:
                try:
                    got = canon.canon(k(ktext))
                    if got["t"] == "u":
                        got = {"t": "fail", "v": "undefined"}
                except BaseException as ex:   # noqa
                    got = {"t": "fail", "v": type(ex).__name__}
                res.append(("literal-kind", None, ktext, got, is_huge(k)))
            outs[mode] = res
        for (pos, cid, text, gc, huge), (_, _, _, gi, _) in zip(outs["compiled"], outs["interpreted"]):
            nevals += 1
            ok, exp = vals[cid] if cid is not None else (False, None)
            same_ci = (gc["t"] == "fail" and gi["t"] == "fail") or canon.same(gc, gi)
            if ok:
                in_domain += 1
            if not same_ci:
                ncmp += 1
                hist_txt = [f"{s[1]}:={s[2]} via {s[3]}" if s[0] == "rebind" else s[1] for s in steps]
                key = (src, pos, json.dumps(gc, sort_keys=True)[:60], json.dumps(gi, sort_keys=True)[:60])
                if key in seen:
                    continue
                seen.add(key)
                spec = canon.show(exp) if ok else "(outside KgEval's domain)"
                culprit = ""
                if ok:
                    culprit = " - the compiled run deviates" if canon.same(exp, gi) else (" - the interpreted run deviates" if canon.same(exp, gc) else "")
                shape = {"fam": ("scan" if e["k"] == "ad" and e["adv"] == "scan" else "reduce" if e["k"] == "ad" else "power" if "^" in src else "other"),
                         "top": e["k"], "op": e.get("op")}
                vd.violation({"what": f"`{text}` (expression {src}, position {pos}) after {hist_txt}: compiled run gives "
                                      f"{canon.show(gc) if gc['t'] not in ('fail',) else gc}, tree-walking run gives "
                                      f"{canon.show(gi) if gi['t'] not in ('fail',) else gi}; KgEval: {spec}{culprit}",
                              "part": "equivalence", "expr": src, "pos": pos, "shape": shape, "operands_beyond_2_61": bool(huge),
                              "numeric_only": gc["t"] != "fail" and gi["t"] != "fail" and canon.same_mod(gc, gi, numeric=True),
                              "compiled_fails": gc["t"] == "fail", "interpreted_fails": gi["t"] == "fail"}, matcher=matcher)
            elif ok and gc["t"] != "fail" and not canon.same(exp, gc):
                both_off_spec += 1
    ev.cov["evaluations"] = nevals
    ev.cov["traces_validated_against_impl"] = len(plans)
    ev.cov["distinct_nontrivial"] = sum(1 for (_, _, steps, _) in plans if any(s[0] == "rebind" for s in steps))
    ev.cov["evaluations_inside_kgeval_domain"] = in_domain
    ev.cov["compiled_vs_interpreted_differences"] = ncmp
    ev.cov["both_runs_agree_but_differ_from_kgeval"] = both_off_spec
    ev.cov["rule"] = ("histories of KgCache.tla (evaluation position in {top, function body, lambda parameters, operand of a non-compilable "
                      "verb} x rebinding route in {top-level ::, klong[name]=, :: inside a function} x 7 value classes), each instantiated "
                      "with expressions of the compilable grammar; non-trivial = histories with a rebinding")
    ev.sample({"expression": kgeval.render_ast(plans[0][1]), "history": [str(s[:4]) for s in plans[0][2]]})
    ev.cov["checker_cmd"] = "tlc KgCache.tla ; tlc KgEvalCases.tla ; two KlongInterpreters per history"
    ev.assumptions += ["NumPy backend (the torch backend's compiled path is C08's subject)",
                       "evaluations where both runs agree with each other but not with KgEval are C01's subject and only counted here"]
    return vd.finish()


def matcher(f, case):
    m = f.get("match", {})
    if "part" in m and case.get("part") != m["part"]:
        return False
    if "fam" in m and case.get("shape", {}).get("fam") not in m["fam"]:
        return False
    if m.get("numeric_only") and not case.get("numeric_only"):
        return False
    if "operands_beyond_2_61" in m and bool(case.get("operands_beyond_2_61")) != bool(m["operands_beyond_2_61"]):
        return False
    return True


def replay(path):
    with open(path) as f:
        case = json.load(f)["case"]
    print(json.dumps(case, indent=1)[:3000])
    return 0
