"""C11 - readable output reads back to the same value (.w/.rs, Format/Form).

spec/rt/RtAbs.tla       values of the round-trip universe, the match relation (Same) and the two judgements
spec/rt/RtUniverse.tla  the closed universe: every data kind, extreme and negative numbers, reals that need an exponent, strings
                        and characters over quotes / blanks / newlines / brackets / comment markers, nestings to depth 3,
                        dictionaries (one source of truth; emitted by TLC)
spec/rt/RtTrace.tla     judgement of the recorded observations

Every value of the universe is built as the Python object the interpreter uses, written with the real .w (output channel
captured), read back with .rs, written again, and also written to a file channel and read back with .r; atoms additionally go through x:$$x.  (value, read-back, same text) are judged by
TLC with RtAbs.
"""
import contextlib
import io
import json
import os

import common
from common import Evidence, Verdicts, run_tlc, stage_spec, MachineryError

PROP = "C11"


def build(v, backend, share=None):
    """share: a dict used as memo - equal sub-dictionaries / sub-lists become ONE object (aliasing)"""
    from klongpy.core import KGSym, KGChar
    t = v["t"]
    if share is not None and t in ("l", "d"):
        key = json.dumps(v, sort_keys=True)
        if key in share:
            return share[key]
        r = _build_compound(v, backend, share)
        share[key] = r
        return r
    if t == "i":
        return int(v["v"])
    if t == "r":
        return float(v["v"])
    if t == "c":
        return KGChar(chr(v["v"]))
    if t == "s":
        return "".join(chr(c) for c in v["v"])
    if t == "y":
        return KGSym("".join(chr(c) for c in v["v"]))
    if t in ("l", "d"):
        return _build_compound(v, backend, share)
    raise MachineryError(f"unknown tag {t}")


def _build_compound(v, backend, share):
    if v["t"] == "l":
        return backend.kg_asarray([build(x, backend, share) for x in v["v"]])
    return {build(k, backend): build(x, backend, share) for k, x in v["v"]}


def canon(x):
    import numpy as np
    from klongpy.core import KGSym, KGChar
    if isinstance(x, KGSym):
        return {"t": "y", "v": [ord(c) for c in str(x)]}
    if isinstance(x, KGChar):
        return {"t": "c", "v": ord(str(x))} if len(str(x)) == 1 else {"t": "x", "v": "KGChar of length %d" % len(str(x))}
    if isinstance(x, str):
        return {"t": "s", "v": [ord(c) for c in x]}
    if isinstance(x, (bool, np.bool_)):
        return {"t": "i", "v": str(int(x))}
    if isinstance(x, (int, np.integer)):
        return {"t": "i", "v": str(int(x))}
    if isinstance(x, (float, np.floating)):
        return {"t": "r", "v": repr(float(x))}
    if isinstance(x, dict):
        return {"t": "d", "v": [[canon(k), canon(v)] for k, v in x.items()]}
    if isinstance(x, (list, tuple, np.ndarray)):
        return {"t": "l", "v": [canon(y) for y in x]}
    return {"t": "x", "v": type(x).__name__}


def show(v):
    t = v["t"]
    if t in ("i", "r"):
        return v["v"]
    if t == "c":
        return "0c" + chr(v["v"])
    if t == "s":
        return json.dumps("".join(chr(c) for c in v["v"]))
    if t == "y":
        return ":" + "".join(chr(c) for c in v["v"])
    if t == "l":
        return "[" + " ".join(show(x) for x in v["v"]) + "]"
    if t == "d":
        return ":{" + " ".join("[" + show(k) + " " + show(x) + "]" for k, x in v["v"]) + "}"
    return f"<{v['v']}>"


def kinds(v):
    out = {v["t"]}
    if v["t"] == "l":
        for x in v["v"]:
            out |= kinds(x)
    if v["t"] == "d":
        for k, x in v["v"]:
            out |= kinds(k) | kinds(x)
    return out


def features(v):
    """Syntactic features of the value that the known findings are keyed on."""
    f = set()

    def walk(v, inlist):
        if v["t"] == "d":
            f.add("dict")
            for k, x in v["v"]:
                walk(k, True)
                walk(x, True)
        elif v["t"] == "l":
            if not v["v"]:
                f.add("empty-list")
            for x in v["v"]:
                walk(x, True)
        elif v["t"] in ("s", "c"):
            cps = v["v"] if v["t"] == "s" else [v["v"]]
            for c in cps:
                if inlist and c in (91, 93):
                    f.add("bracket-text-in-list")
                if c == 34:
                    f.add("quote")
            if v["t"] == "c" and v["v"] in (32, 10, 9):
                f.add("blank-char" + ("-in-list" if inlist else ""))
        elif v["t"] == "i" and abs(int(v["v"])) > 2 ** 53:
            f.add("int-beyond-2^53")
        elif v["t"] == "r":
            f.add("real")
    walk(v, False)
    return sorted(f)


def run(tier, seed):
    import logging
    logging.disable(logging.CRITICAL)
    ev = Evidence(PROP, tier, seed)
    vd = Verdicts(PROP, ev)
    d = stage_spec("rt/RtAbs.tla", "rt/RtUniverse.tla", "rt/RtTrace.tla")
    cfg = os.path.join(d, "u.cfg")
    with open(cfg, "w") as f:
        f.write('INIT Init\nNEXT Next\nCONSTANT Tier = "%s"\nINVARIANT Emit\nCHECK_DEADLOCK FALSE\n' % tier)
    r = run_tlc(os.path.join(d, "RtUniverse.tla"), cfg, workers=1, timeout=3000)
    ev.add_tlc(f"RtUniverse.tla ({tier}): the closed universe of values", r, "one state per value")
    vals = [p for p in r.prints if isinstance(p, dict) and "v" in p]
    if len(vals) < 300:
        raise MachineryError(f"only {len(vals)} values emitted")
    common.use_repo()
    out = io.StringIO()
    with contextlib.redirect_stdout(out):
        from klongpy import KlongInterpreter
        k = KlongInterpreter()

        def written(name):
            out.seek(0)
            out.truncate(0)
            k(f".w({name})")
            return out.getvalue()
        obs, meta = [], {}
        fdir = __import__("tempfile").mkdtemp(prefix="rt-", dir=common.scratch())
        fpath = os.path.join(fdir, "value.txt")
        k["fpath"] = fpath
        for p in vals:
            v = p["v"]
            tid = len(obs)
            rec = {"tid": tid, "kind": "roundtrip", "v": v}
            info = {"value": show(v)}
            held = None
            try:
                k["v"] = build(v, k._backend)
                held = canon(k["v"])              # the value the interpreter holds (a list of an integer and a real holds reals only:
                rec["v"] = held                   # numeric homogenisation is recorded under C01 and is not a matter of the writer)
                text = written("v")
                info["text"] = text
                k["t"] = text
                back = k(".rs(t)")
                rec["back"] = canon(back)
                k["u"] = back
                text2 = written("u")
                info["text2"] = text2
                rec["sametext"] = text2 == text
            except BaseException as ex:   # noqa
                rec["back"] = {"t": "x", "v": f"raised {type(ex).__name__}: {str(ex)[:60]}"}
                rec["sametext"] = False
            info["back"] = show(rec["back"])
            obs.append(rec)
            meta[tid] = (v, info)
            # the same value through a FILE: .w to an output channel, .r from an input channel
            tid = len(obs)
            rec = {"tid": tid, "kind": "roundtrip", "v": held or v}
            finfo = {"value": show(v) + " (through a file: .w to an output channel, .r from an input channel)"}
            try:
                k("oc1::.oc(fpath)")
                k("op1::.tc(oc1)")
                try:
                    k(".w(v)")
                finally:
                    k(".tc(op1)")
                    k(".cc(oc1)")
                with open(fpath) as fh:
                    text = fh.read()
                finfo["text"] = text
                k("ic1::.ic(fpath)")
                k("ip1::.fc(ic1)")
                try:
                    back = k(".r()")
                finally:
                    k(".fc(ip1)")
                    k(".cc(ic1)")
                rec["back"] = canon(back)
                k["u"] = back
                text2 = written("u")
                finfo["text2"] = text2
                rec["sametext"] = text2 == text
            except BaseException as ex:   # noqa
                rec["back"] = {"t": "x", "v": f"raised {type(ex).__name__}: {str(ex)[:60]}"}
                rec["sametext"] = False
            finfo["back"] = show(rec["back"])
            obs.append(rec)
            meta[tid] = (v, finfo)
            if p.get("shared"):
                tid = len(obs)
                rec = {"tid": tid, "kind": "roundtrip", "v": v}
                info = {"value": show(v) + " (equal parts built as ONE shared object)"}
                try:
                    k["v"] = build(v, k._backend, share={})
                    rec["v"] = canon(k["v"])
                    text = written("v")
                    info["text"] = text
                    k["t"] = text
                    back = k(".rs(t)")
                    rec["back"] = canon(back)
                    k["u"] = back
                    text2 = written("u")
                    info["text2"] = text2
                    rec["sametext"] = text2 == text
                except BaseException as ex:   # noqa
                    rec["back"] = {"t": "x", "v": f"raised {type(ex).__name__}: {str(ex)[:60]}"}
                    rec["sametext"] = False
                info["back"] = show(rec["back"])
                obs.append(rec)
                meta[tid] = (v, info)
            if p["atom"]:
                tid = len(obs)
                rec = {"tid": tid, "kind": "form", "v": v, "sametext": True}
                try:
                    k["x"] = build(v, k._backend)
                    rec["back"] = canon(k("x:$$x"))
                    fm = k("$x")
                except BaseException as ex:   # noqa
                    rec["back"] = {"t": "x", "v": f"raised {type(ex).__name__}: {str(ex)[:60]}"}
                    fm = None
                obs.append(rec)
                meta[tid] = (v, {"value": show(v), "format": fm if isinstance(fm, str) else repr(fm), "back": show(rec["back"])})
    tf = os.path.join(d, "obs.json")
    with open(tf, "w") as f:
        json.dump(obs, f)
    cfgt = os.path.join(d, "t.cfg")
    with open(cfgt, "w") as f:
        f.write("INIT Init\nNEXT Next\nCHECK_DEADLOCK FALSE\n")
    rt = run_tlc(os.path.join(d, "RtTrace.tla"), cfgt, workers=1, extra_env={"TRACE_FILE": tf}, timeout=3000)
    ev.add_tlc("RtTrace.tla", rt, "one state per observation, judged with RtAbs!Same")
    verdicts = {x["tid"]: x["bad"] for x in rt.prints if isinstance(x, dict) and "tid" in x}
    if len(verdicts) != len(obs):
        raise MachineryError(f"{len(verdicts)} verdicts for {len(obs)} observations")
    clusters = {}
    for tid, bad in verdicts.items():
        if bad == "ok":
            continue
        v, info = meta[tid]
        case = {"clause": bad, "kind": obs[tid]["kind"], "top": v["t"], "features": features(v), "value": info["value"],
                "back_tag": obs[tid]["back"]["t"],
                "what": (f"{info['value']} is written as {info.get('text')!r}; reading that back gives {info['back']}"
                         + (f", which is written as {info.get('text2')!r}" if info.get("text2") != info.get("text") else "") + f" [{bad}]")
                if obs[tid]["kind"] == "roundtrip" else
                f"x:$$x for x = {info['value']}: $x is {info.get('format')!r}, Form gives back {info['back']} [{bad}]"}
        clusters.setdefault((bad, obs[tid]["kind"], v["t"], tuple(case["features"])), []).append(case)
    for key, items in sorted(clusters.items(), key=lambda kv: str(kv[0])):
        items.sort(key=lambda c: len(c["value"]))
        case = dict(items[0])
        case["cluster_size"] = len(items)
        case["more"] = [c["value"] for c in items[1:5]]
        vd.violation(case, matcher=matcher)
    ev.cov["evaluations"] = len(obs)
    ev.cov["traces_validated_against_impl"] = len(obs)
    ev.cov["distinct_nontrivial"] = sum(1 for o in obs if o["v"]["t"] in ("l", "d", "s"))
    ev.cov["values"] = len(vals)
    ev.cov["form_format_cases"] = sum(1 for o in obs if o["kind"] == "form")
    ev.cov["kinds_covered"] = sorted(set().union(*[kinds(p["v"]) for p in vals]))
    ev.cov["mismatching_observations"] = sum(len(x) for x in clusters.values())
    ev.cov["exhaustive"] = True
    ev.cov["rule"] = ("every value of RtUniverse.tla: 64 atoms (integers up to the 64-bit extremes, reals incl. exponents, -0.0, the largest and "
                      "the smallest double, characters and strings over quotes/blanks/newlines/brackets/comment markers, symbols), every atom "
                      "alone / as only / as last element / nested to depth 2 and 3 / as dictionary value, 9 key kinds, dictionaries inside "
                      "lists and dictionaries, (thorough: all pairs of atoms); non-trivial = lists, dictionaries and strings")
    ev.sample({"value": meta[0][1]})
    ev.cov["checker_cmd"] = "tlc RtUniverse.tla ; .w / .rs / x:$$x in a KlongInterpreter ; tlc RtTrace.tla"
    ev.assumptions += [
                       "reals are compared exactly (shortest decimal text)", "integers beyond 64 bits are not in the universe"]
    return vd.finish()


def matcher(f, case):
    m = f.get("match", {})
    if "clauses" in m and case["clause"] not in m["clauses"]:
        return False
    if "kind" in m and case["kind"] != m["kind"]:
        return False
    if "tops" in m and case["top"] not in m["tops"]:
        return False
    if "features_all" in m and not set(m["features_all"]) <= set(case["features"]):
        return False
    if "features_none" in m and set(m["features_none"]) & set(case["features"]):
        return False
    return True


def replay(path):
    with open(path) as f:
        case = json.load(f)["case"]
    print(json.dumps(case, indent=1)[:3000])
    return 0
