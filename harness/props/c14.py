"""C14 - every remote call gets its own answer or an error: never another's, never hangs.

spec/net/Ipc.tla          implementation-shaped model of NetworkClient.call / _listen / _run / cleanup with caller
                          threads, the io loop and a peer that answers in any order or loses the connection
spec/net/IpcCallAbs.tla   the property as a monitor (own answer, at most once, every call completes)
spec/net/IpcCallTrace.tla validation of call histories recorded from the real NetworkClient

1. TLC checks Ipc.tla exhaustively (3 callers): Good (own answer) and NoHang (quiescent => nobody waits).
2. TLC emits complete behaviours (exhaustive for 2 callers, -simulate for 3); each is executed by the real
   NetworkClient: real caller threads under the deterministic scheduler, a virtual io loop stepped by the
   driver, a hand-fed asyncio.StreamReader as the peer, pending_responses instrumented so that thread
   switches between iterations of Python-level loops over it are explored.
3. The recorded histories are validated by TLC against IpcCallAbs.
"""
import json
import logging
import os

import common
from common import Evidence, Verdicts, run_tlc, stage_spec, MachineryError

PROP = "C14"


def write_cfg(d, callers, snapshot, record, name, closers=(), peercloses=False):
    cfg = os.path.join(d, name)
    lines = ["INIT Init", "NEXT Next", "CONSTANTS", "  Callers = {%s}" % ", ".join(str(c) for c in callers),
             f"  SnapshotCleanup = {'TRUE' if snapshot else 'FALSE'}", f"  RecordHist = {'TRUE' if record else 'FALSE'}",
             "  Closers = {%s}" % ", ".join(str(c) for c in closers), f"  PeerCloses = {'TRUE' if peercloses else 'FALSE'}",
             "INVARIANT Good", "INVARIANT NoHang", "CHECK_DEADLOCK FALSE"]
    if record:
        lines.append("INVARIANT Emit")
    with open(cfg, "w") as f:
        f.write("\n".join(lines) + "\n")
    return cfg


def run(tier, seed):
    logging.disable(logging.CRITICAL)
    import traceback
    traceback.print_exception = lambda *a, **k: None
    ev = Evidence(PROP, tier, seed)
    vd = Verdicts(PROP, ev)
    thorough = tier == "thorough"
    d = stage_spec("net/Ipc.tla", "net/IpcCallAbs.tla", "net/IpcCallTrace.tla")
    mod = os.path.join(d, "Ipc.tla")

    r = run_tlc(mod, write_cfg(d, [1, 2, 3], True, False, "d3.cfg"), workers=16, coverage=True, timeout=3000)
    ev.add_tlc("Ipc.tla exhaustive, 3 callers, responses in any order, connection cut at any point (clean / inside a frame)", r,
               "invariants Good (own answer, at most once) and NoHang")
    if r.violated:
        vd.violation({"what": f"design-level: Ipc.tla violates {r.violated}", "counterexample": r.cex[:8000]})
    for act in ("CCheck", "CRegister", "CSchedule", "LSend", "LDrained", "LDeliver", "LEof", "LWake", "PRespond", "PCut"):
        if r.coverage.get(act, (0, 0))[1] == 0:
            raise MachineryError(f"vacuity: action {act} never taken")
    rn = run_tlc(mod, write_cfg(d, [1, 2, 3], False, False, "n3.cfg"), workers=16, timeout=3000)
    ev.cov["negative_control_pinned_cleanup_violates"] = rn.violated
    if rn.violated != "NoHang":
        raise MachineryError("negative control: the model of the pinned cleanup loop does not violate NoHang")

    # liveness under weak fairness: every call that was started comes to an end (temporal property, not only quiescent states)
    lcfg = os.path.join(d, "live.cfg")
    with open(lcfg, "w") as f:
        f.write("SPECIFICATION Spec\nCONSTANTS\n  Callers = {1, 2, 3}\n  Closers = {3}\n  PeerCloses = TRUE\n  SnapshotCleanup = TRUE\n"
                "  RecordHist = FALSE\nPROPERTY Completes\nCHECK_DEADLOCK FALSE\n")
    rl = run_tlc(mod, lcfg, workers=16, timeout=3000)
    ev.add_tlc("Ipc.tla temporal property Completes (call started ~> call ended) under WF(Next), 3 callers incl. one close()", rl)
    if rl.violated:
        vd.violation({"what": f"design-level: Ipc.tla violates the liveness property Completes ({rl.violated})", "counterexample": rl.cex[:8000]})
    behs = []
    r2 = run_tlc(mod, write_cfg(d, [1, 2], True, True, "e2.cfg"), workers=1, timeout=3000)
    ev.add_tlc("Ipc.tla behaviour tree, 2 callers (exhaustive, emitted for replay)", r2)
    tree = [(2, p) for p in r2.prints if isinstance(p, dict) and "steps" in p]
    import random
    random.Random(seed).shuffle(tree)
    ev.cov["tree_behaviours_2_callers"] = len(tree)
    behs += tree[:(1500 if not thorough else 20000)]
    nsim = 1500 if not thorough else 15000
    r3 = run_tlc(mod, write_cfg(d, [1, 2, 3], True, True, "e3.cfg"), workers=1, simulate=f"num={nsim}", depth=60,
                 seed=seed + 7, timeout=3000)
    ev.add_tlc(f"Ipc.tla -simulate num={nsim}, 3 callers", r3)
    behs += [(3, p) for p in r3.prints if isinstance(p, dict) and "steps" in p]
    # interleavings of the PINNED cleanup loop too: they are behaviours a Python-level loop over the table admits;
    # the tree under test must survive them as well (with a snapshot-based cleanup the extra steps are no-ops)
    r4 = run_tlc(mod, write_cfg(d, [1, 2, 3], False, True, "p3.cfg"), workers=1, simulate=f"num={nsim // 3}", depth=60,
                 seed=seed + 9, timeout=3000)
    ev.add_tlc(f"Ipc.tla (pinned cleanup loop) -simulate num={nsim // 3}, 3 callers: registration in the middle of the cleanup", r4)
    behs += [(3, p) for p in r4.prints if isinstance(p, dict) and "steps" in p]
    # close(): one caller closes the handle while the others call; the peer may ask to close as well
    rc = run_tlc(mod, write_cfg(d, [1, 2, 3], True, False, "c3.cfg", closers=[3], peercloses=True), workers=16, timeout=3000)
    ev.add_tlc("Ipc.tla exhaustive, 3 callers of which one runs close(), the peer may request a close", rc, "invariants Good and NoHang")
    if rc.violated:
        vd.violation({"what": f"design-level: Ipc.tla (close) violates {rc.violated}", "counterexample": rc.cex[:8000]})
    r5 = run_tlc(mod, write_cfg(d, [1, 2], True, True, "ce2.cfg", closers=[2], peercloses=True), workers=1, simulate=f"num={nsim}", depth=60,
                 seed=seed + 10, timeout=3000)
    ev.add_tlc(f"Ipc.tla -simulate num={nsim}, caller 1 calls, caller 2 closes, peer may request a close", r5)
    ctree = [(2, p) for p in r5.prints if isinstance(p, dict) and "steps" in p]
    random.Random(seed + 1).shuffle(ctree)
    closing = ctree[:(800 if not thorough else 10000)]
    r6 = run_tlc(mod, write_cfg(d, [1, 2, 3], True, True, "ce3.cfg", closers=[3], peercloses=True), workers=1, simulate=f"num={nsim // 3}", depth=60,
                 seed=seed + 11, timeout=3000)
    ev.add_tlc(f"Ipc.tla -simulate num={nsim // 3}, callers 1-2 call, caller 3 closes", r6)
    closing += [(3, p) for p in r6.prints if isinstance(p, dict) and "steps" in p][:(500 if not thorough else 5000)]
    seen, uniq = set(), []
    for n, b in behs:
        h = common.jhash(b["steps"])
        if h not in seen:
            seen.add(h)
            uniq.append((n, b))
    behs = uniq
    cap = 4000 if not thorough else 40000
    behs = [(n, b, ()) for n, b in behs[:cap]] + [(n, b, (n,)) for n, b in closing]
    if not behs:
        raise MachineryError("no behaviours emitted")

    from ipcdriver import IpcDriver
    traces, meta = [], {}
    drift = 0
    nspin = 0
    for n, b, closers in behs:
        big = len(traces) % 5 == 4              # every fifth schedule with responses larger than 64 KiB
        drv = IpcDriver(list(range(1, n + 1)), closers=closers, big=big)
        dl = common.deadline(60)
        try:
            with dl:
                res = drv.run(b["steps"])
            if dl.fired:
                raise common.Spinning()
        except common.Spinning:
            vd.violation({"what": f"real NetworkClient: the io loop does not give control back (60 s) in schedule "
                                  f"{[(s_['a'], s_.get('c', s_.get('id', ''))) for s_ in b['steps']]}", "clause": "LoopSpins",
                          "steps": b["steps"], "callers": list(range(1, n + 1)), "closers": closers, "big": big})
            nspin += 1
            if nspin >= 2:
                break
            continue
        except Exception as e:
            raise MachineryError(f"driver failed on {b['steps']}: {type(e).__name__}: {e}")
        tid = len(traces)
        res["big"] = big
        traces.append({"tid": tid, "callers": list(range(1, n + 1)), "events": res["events"]})
        meta[tid] = (b, res, closers)
        if res["drift"] or sorted(res["events"][-1]["blocked"]) != sorted(b["hung"]):
            drift += 1
    tf = os.path.join(d, "calls.json")
    with open(tf, "w") as f:
        json.dump(traces, f)
    cfgt = os.path.join(d, "trace.cfg")
    with open(cfgt, "w") as f:
        f.write("INIT Init\nNEXT Next\nCHECK_DEADLOCK FALSE\n")
    rt = run_tlc(os.path.join(d, "IpcCallTrace.tla"), cfgt, workers=1, extra_env={"TRACE_FILE": tf}, timeout=3000)
    ev.add_tlc("IpcCallTrace.tla", rt, "one state per recorded call history")
    verdicts = {v["tid"]: v for v in rt.prints if isinstance(v, dict) and "tid" in v}
    if len(verdicts) != len(traces):
        raise MachineryError(f"trace validation returned {len(verdicts)} verdicts for {len(traces)} histories")
    for tid, v in verdicts.items():
        if v["bad"] == "ok":
            continue
        b, res, closers = meta[tid]
        vd.violation({"what": f"real NetworkClient{' (caller %d runs close())' % closers[0] if closers else ''}: {v['bad']}: schedule {[(s['a'], s.get('c', s.get('id', ''))) for s in b['steps']]} "
                              f"-> events {res['events']}",
                      "clause": v["bad"], "steps": b["steps"], "callers": traces[tid]["callers"], "closers": list(closers), "big": res.get("big", False), "events": res["events"]})
    ev.cov["traces_validated_against_impl"] = len(traces)
    ev.cov["evaluations"] = len(traces)
    ev.cov["distinct_nontrivial"] = sum(1 for n, b, _ in behs if any(s["a"] == "pcut" for s in b["steps"]) or
                                        len([s for s in b["steps"] if s["a"] == "ldeliver"]) >= 2)
    ev.cov["spec_drift"] = drift
    ev.cov["rule"] = ("complete behaviours of Ipc.tla (exhaustive tree for 2 callers, -simulate for 3, plus interleavings of caller "
                      "registrations inside the cleanup loop) executed by the real NetworkClient with real caller threads, a virtual io "
                      "loop and a hand-fed StreamReader; non-trivial = contains a connection cut or >= 2 delivered responses")
    for t in traces[:2]:
        ev.sample({"schedule": [(s["a"], s.get("c", s.get("id", ""))) for s in meta[t["tid"]][0]["steps"]], "events": t["events"]})
    if drift:
        print(f"SPEC-DRIFT property={PROP}: {drift} of {len(traces)} replays differ from Ipc.tla's prediction")
    ev.cov["checker_cmd"] = "tlc Ipc.tla ; tlc IpcCallTrace.tla"
    ev.assumptions += ["the loop thread is the harness thread: loop callbacks are atomic w.r.t. each other (as in asyncio); caller "
                       "threads interleave at is_open / registration / scheduling and between iterations of Python-level loops "
                       "over pending_responses",
                       "'never hangs' is decided at quiescence of the virtual system (nothing ready, nothing scheduled, peer done); "
                       "a caller still inside call() then is a hang",
                       "close(): the call of KGRemoteCloseConnection and the listener's exit are modelled; conn_provider.close() and the "
                       "server side of the shutdown handshake are not"]
    return vd.finish()


def replay(path):
    from ipcdriver import IpcDriver
    with open(path) as f:
        case = json.load(f)["case"]
    drv = IpcDriver(case["callers"], closers=case.get("closers", ()), big=case.get("big", False))
    print(json.dumps(drv.run(case["steps"]), indent=1))
    os._exit(0)
