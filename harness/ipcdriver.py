"""Drives the real klongpy.sys_fn_ipc.NetworkClient along a behaviour of spec/net/Ipc.tla.

The io loop is a virtual loop stepped by the driver; caller threads are real threads controlled by
harness/sched.py at the three points of call() where another thread can interleave (is_open check,
registration in pending_responses, scheduling of the send coroutine); the peer is the driver itself feeding
an asyncio.StreamReader.  pending_responses is replaced by a dict subclass that lets the behaviour's caller
steps run between two iterations of a Python-level `for` loop over it (and only there: iteration driven from
C code such as list(d.values()) is atomic under the GIL, exactly as in CPython).
"""
import asyncio
import dis
import sys
import threading
import time

import common
from sched import Sched, Blocked


class FakeWriter:
    def __init__(self):
        self.data = bytearray()
        self.closed = False
        self.block_next = None
        self.waiting = {}
        self.unparsed = bytearray()
        self.frames = []
        self.on_frame = None

    def write(self, b):
        self.data += b
        # the peer's view of the stream: complete frames (16-byte id, 4-byte length, pickled body)
        self.unparsed += b
        while len(self.unparsed) >= 20:
            n = int.from_bytes(self.unparsed[16:20], "big")
            if len(self.unparsed) < 20 + n:
                break
            self.frames.append((bytes(self.unparsed[:16]), bytes(self.unparsed[20:20 + n])))
            del self.unparsed[:20 + n]
            if self.on_frame is not None:
                self.on_frame(*self.frames[-1])

    async def drain(self):
        # the behaviour being replayed decides whether this drain() has to wait for the transport (large request)
        if self.block_next is not None:
            name, self.block_next = self.block_next, None
            fut = asyncio.get_running_loop().create_future()
            self.waiting[name] = fut
            await fut
        return None

    def is_closing(self):
        return self.closed

    def close(self):
        self.closed = True

    async def wait_closed(self):
        return None

    def get_extra_info(self, *a, **k):
        return ("127.0.0.1", 1)


class _ValuesIter:
    def __init__(self, d, it):
        self.d, self.it, self.n = d, it, 0

    def __iter__(self):
        return self

    def __next__(self):
        f = sys._getframe(1)
        byfor = dis.opname[f.f_code.co_code[f.f_lasti]] == "FOR_ITER"
        if byfor and self.d.driver is not None:
            self.d.driver.between_iterations(self.n)
        self.n += 1
        return next(self.it)


class _Values:
    def __init__(self, d):
        self.d = d

    def __iter__(self):
        return _ValuesIter(self.d, iter(dict.values(self.d)))

    def __len__(self):
        return dict.__len__(self.d)


class InstrDict(dict):
    driver = None

    def __setitem__(self, k, v):
        drv = self.driver
        if drv is not None:
            name = drv.sched.me()
            if name is not None:
                drv.sched.yield_point("register")
                drv.id_of[name] = k
        dict.__setitem__(self, k, v)

    def values(self):
        return _Values(self)


class IpcDriver:
    def __init__(self, callers, closers=(), big=False):
        common.use_repo()
        self.closers = {int(c) for c in closers}
        self.big = big            # responses larger than 64 KiB (the size at which stream readers change their strategy)
        from vloop import VLoop
        import klongpy.sys_fn_ipc as ipc
        self.ipc = ipc
        self.callers = [f"c{c}" for c in callers]
        self.sched = Sched(timeout=10.0)
        drv = self

        class IoLoop(VLoop):
            def call_soon_threadsafe(self, callback, *args, context=None):
                name = drv.sched.me()
                if name is not None:              # a caller thread schedules its send coroutine
                    drv.sched.yield_point("schedule")
                    drv.held.append((name, callback, args))
                    drv.mark_blocked(name)
                    return None
                return super().call_soon_threadsafe(callback, *args, context=context)
        self.io = IoLoop()
        self.kl = VLoop()
        self.held = []
        self.cf = {}
        self.id_of = {}
        self.blocked = set()
        self.reader = asyncio.StreamReader(loop=self.io)
        self.writer = FakeWriter()
        self.wire_id = {}          # caller -> id carried by ITS request frame on the wire (what a real server answers under)
        self.cur_send = None
        self.writer.on_frame = self.saw_frame
        prov = ipc.ReaderWriterConnectionProvider(self.reader, self.writer, "peer", 1)
        orig_is_open = prov.is_open

        def is_open():
            if drv.sched.me() is not None:
                drv.sched.yield_point("check")
            return orig_is_open()
        prov.is_open = is_open
        self.nc = ipc.NetworkClient.create_from_conn_provider(self.io, self.kl, None, prov)
        # remember the concurrent future each caller thread blocks on (harness-side wrapper, no source change)
        if not hasattr(asyncio.run_coroutine_threadsafe, "_klverif"):
            orig_rct = asyncio.run_coroutine_threadsafe

            def rct(coro, loop):
                fut = orig_rct(coro, loop)
                d = getattr(loop, "_klverif_driver", None)
                if d is not None and d.sched.me() is not None:
                    d.cf[d.sched.me()] = fut
                return fut
            rct._klverif = True
            asyncio.run_coroutine_threadsafe = rct
        self.io._klverif_driver = self
        d = InstrDict()
        d.driver = self
        self.nc.pending_responses = d
        self.nc.running = True
        self.task = self.io.create_task(self.nc._run(None, None, None))
        self.io.run_ready()
        self.events = []
        self.outcomes = {}
        self.steps = []
        self.pos = 0
        self.pending_cut = None
        self.drift = []

    # ------------------------------------------------------------------------------- caller threads
    def mark_blocked(self, name):
        with self.sched.cv:
            self.blocked.add(name)
            self.sched.state[name] = "parked"      # from the scheduler's point of view the segment is over
            self.sched.label[name] = "blocked"
            if self.sched.granted == name:
                self.sched.granted = None
            self.sched.cv.notify_all()

    def caller_body(self, name):
        c = int(name[1:])

        def body():
            self.events.append({"ev": "begin", "c": c})
            try:
                if c in self.closers:
                    self.nc.close()                     # call(KGRemoteCloseConnection) + cleanup
                    r = ("resp", c)
                else:
                    r = self.nc.call(("req", c))
                out = {"ev": "end", "c": c, "out": "value", "id": int(r[1]) if isinstance(r, tuple) and len(r) == 2 else -1}
            except Blocked:
                raise
            except BaseException as e:   # noqa
                out = {"ev": "end", "c": c, "out": "exc", "id": 0, "cls": type(e).__name__}
            self.outcomes[name] = out
            self.events.append(out)
        return body

    def wait_thread_done(self, name, timeout=2.0):
        t0 = time.time()
        while time.time() - t0 < timeout:
            if name in self.outcomes:
                return True
            time.sleep(0.0005)
        return name in self.outcomes

    def saw_frame(self, raw_id, body):
        import pickle
        import uuid
        try:
            msg = pickle.loads(body)
        except Exception:   # noqa
            self.drift.append("request frame with an undecodable body")
            return
        if isinstance(msg, tuple) and len(msg) == 2 and msg[0] == "req":
            c = int(msg[1])
        else:
            c = self.cur_send          # a close request: sent by the closer whose send step is being executed
        if c is not None:
            self.wire_id[c] = uuid.UUID(bytes=raw_id)

    # ------------------------------------------------------------------------------------- steps
    def frame_for(self, c, partial=False):
        if c == 0:                                      # a close REQUEST from the peer (nobody waits for this id)
            import uuid
            return self.ipc.encode_message(uuid.uuid4(), self.ipc.KGRemoteCloseConnection())
        # the peer answers a request under the id its frame carried on the wire (not under the id the caller registered)
        mid = self.wire_id.get(c)
        if mid is None:
            return b""
        fr = self.ipc.encode_message(mid, self.ipc.KGRemoteCloseConnection() if c in self.closers
                                     else (("resp" + "x" * 70000) if self.big else "resp", c))
        return fr[:len(fr) - (3 if not self.big else 30000)] if partial else fr

    def do_caller_step(self, st):
        name = f"c{st['c']}"
        want = {"ccheck": "check", "cregister": "register", "cschedule": "schedule"}[st["a"]]
        if self.sched.where(name) == "start":
            pass
        lab = self.sched.where(name)
        if lab != want:
            self.drift.append(f"{name} at {lab}, model expects {want}")
        if self.sched.where(name) in ("done", "blocked", None):
            return
        self.sched.grant(name)

    def between_iterations(self, n):
        """Called from inside the code under test between two iterations of a Python-level for loop over
        pending_responses.values(): run the behaviour's caller steps that the model interleaves here."""
        while self.pos < len(self.steps):
            st = self.steps[self.pos]
            if st["a"] in ("ccheck", "cregister", "cschedule"):
                self.pos += 1
                self.do_caller_step(st)
            elif st["a"] in ("prespond", "pcut", "pclosereq"):
                self.pos += 1
                self.do_peer_step(st)
            else:
                if st["a"] in ("lclean", "lcleanend"):
                    self.pos += 1
                break

    def do_peer_step(self, st):
        if st["a"] == "pcut":
            self.pending_cut = (st["c"], bool(st["partial"]))

    def run(self, steps):
        self.steps = steps
        self.pos = 0
        for name in self.callers:
            self.sched.spawn(name, self.caller_body(name))
            self.sched.grant(name)            # start gate -> "check" yield inside call()
        while self.pos < len(self.steps):
            st = self.steps[self.pos]
            self.pos += 1
            a = st["a"]
            if a in ("ccheck", "cregister", "cschedule"):
                self.do_caller_step(st)
            elif a in ("prespond", "pcut", "pclosereq"):
                self.do_peer_step(st)
            elif a == "lsend":
                name = f"c{st['c']}"
                self.cur_send = st["c"]
                for i, (n, cb, args) in enumerate(self.held):
                    if n == name:
                        self.held.pop(i)
                        self.io.call_soon(cb, *args)
                        break
                else:
                    self.drift.append(f"no held coroutine for {name}")
                if st.get("blk"):
                    self.writer.block_next = name
                    for _ in range(4):          # task creation and the first step of the coroutine are separate iterations
                        self.io.step()
                        if self.writer.block_next is None:
                            break
                    self.writer.block_next = None
                else:
                    # creating the task and running it up to its first await are two iterations of the loop: the model's
                    # LSend ends when the request frame is on the wire
                    nfr = len(self.writer.frames)
                    self.io.step()
                    if len(self.writer.frames) == nfr:
                        self.io.step()
                self.settle_threads()
            elif a == "ldrained":
                fut = self.writer.waiting.pop(f"c{st['c']}", None)
                if fut is None:
                    self.drift.append(f"no waiting drain for c{st['c']}")
                else:
                    if not fut.done():
                        fut.set_result(None)
                    self.io.step()
                    self.settle_threads()
            elif a == "ldeliver" and False:
                pass
            elif a == "ldeliver":
                self.reader.feed_data(self.frame_for(st["id"]))
                self.io.step()
            elif a == "leof":
                if self.pending_cut and self.pending_cut[1]:
                    self.reader.feed_data(self.frame_for(self.pending_cut[0], partial=True))
                self.reader.feed_eof()
                self.io.step()              # listener: exception path, cleanup (may call between_iterations)
            elif a in ("lclean", "lcleanend"):
                pass                        # consumed inside between_iterations when the code iterates
            elif a == "lwake":
                name = f"c{st['c']}"
                if name not in self.outcomes:
                    self.io.step()
                    self.settle_threads()
        # quiescence: let everything that is ready run, then see who is still inside call()
        for _ in range(6):
            self.io.run_ready()
            self.settle_threads()
        blocked = [n for n in self.callers if n not in self.outcomes and self.sched.where(n) == "blocked"]
        unfinished = [n for n in self.callers if n not in self.outcomes and n not in blocked
                      and self.sched.where(n) not in ("start", "check")]
        self.events.append({"ev": "quiet", "blocked": sorted(int(n[1:]) for n in blocked)})
        return {"events": self.events, "drift": self.drift, "loop_exceptions": [str(x.get("exception"))[:120] for x in self.io.exceptions],
                "unfinished": unfinished, "pending_left": len(self.nc.pending_responses)}

    def settle_threads(self, timeout=2.0):
        """A caller thread whose concurrent future has been resolved by the loop finishes on its own (it is a real
        thread blocked in Future.result()): wait until it has recorded its outcome."""
        for n in list(self.blocked):
            if n in self.outcomes:
                continue
            t0 = time.time()
            while n not in self.cf and time.time() - t0 < 0.5:
                time.sleep(0.0002)         # the thread is between scheduling and Future.result()
            f = self.cf.get(n)
            if f is not None and f.done():
                t0 = time.time()
                while n not in self.outcomes and time.time() - t0 < timeout:
                    time.sleep(0.0002)
