"""A process that has imported the tree under test but never evaluated a program.  For every request (one JSON line:
{"pre": variable state by scope, "ph": module phase, "src": statement}) it FORKS; the child builds an interpreter, loads the
state, evaluates the statement and answers with the canonical value - so no answer can depend on an earlier request, not even
through state that is global to the process (caches in shared backend objects, class attributes, module globals)."""
import json
import os
import sys

HERE = os.path.dirname(os.path.abspath(__file__))
sys.path.insert(0, HERE)
import common      # noqa: E402
import canon       # noqa: E402

common.use_repo()
import logging     # noqa: E402
logging.disable(logging.CRITICAL)
from props import c04   # noqa: E402
import klongpy     # noqa: E402,F401  (imported before the first fork)


def answer(req):
    k = c04.new_interp()
    c04.load(k, req["pre"], req["ph"])
    try:
        return canon.canon(k(req["src"]))
    except BaseException as e:   # noqa
        return {"t": "exc", "v": f"{type(e).__name__}: {str(e)[:60]}"}


def main():
    for line in sys.stdin:
        line = line.strip()
        if not line:
            continue
        req = json.loads(line)
        r, w = os.pipe()
        pid = os.fork()
        if pid == 0:
            os.close(r)
            try:
                out = json.dumps(answer(req))
            except BaseException as e:   # noqa
                out = json.dumps({"t": "exc", "v": f"machinery: {type(e).__name__}: {e}"})
            os.write(w, out.encode())
            os.close(w)
            os._exit(0)
        os.close(w)
        chunks = []
        while True:
            b = os.read(r, 65536)
            if not b:
                break
            chunks.append(b)
        os.close(r)
        os.waitpid(pid, 0)
        sys.stdout.write(b"".join(chunks).decode() + "\n")
        sys.stdout.flush()


if __name__ == "__main__":
    main()
