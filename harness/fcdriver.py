"""Drives the real klongpy.db.file_cache.FileCache along a behaviour of spec/store/FileCache.tla."""
import heapq
import os
import shutil
import tempfile

import common
from sched import Sched, SchedLock, SchedExecutor, OsProxy, make_open, Blocked

LABEL_OF = {"idle": "invoke", "g_exists": "exists", "g_size": "getsize", "g_lock": "lock", "u_lock": "lock",
            "n_lock": "lock", "g_wait": "wait", "u_wait": "wait", "l_read": "read", "l_lock": "lock",
            "w_open": "open_w", "w_write": "write", "w_lock": "lock"}


def content_bytes(v, sizes):
    return bytes([64 + v]) * sizes[str(v)] if v > 0 else b""


def content_id(b, sizes):
    if b is None:
        return -1
    if len(b) == 0:
        return 0
    for v, n in sizes.items():
        if b == bytes([64 + int(v)]) * n:
            return int(v)
    return 99


class FCDriver:
    def __init__(self, cf, sizes, files=("A", "B")):
        """cf: {"maxmem":..,"progs":{client:[op..]},"disk":{file:content}}; sizes: {"1":2,...}"""
        common.use_repo()
        import klongpy.db.file_cache as fcm
        self.fcm = fcm
        self.cf, self.sizes, self.files = cf, sizes, list(files)
        self.root = tempfile.mkdtemp(prefix="fc-", dir=common.scratch())
        for f, v in cf["disk"].items():
            if v >= 0:
                with open(os.path.join(self.root, f), "wb") as fh:
                    fh.write(content_bytes(v, sizes))
        self.sched = Sched()
        self.cache = fcm.FileCache(max_memory=cf["maxmem"], root_path=self.root)
        try:
            self.cache.executor.shutdown(wait=False)
        except Exception:
            pass
        self.cache.file_futures_lock = SchedLock(self.sched)
        self.exec = SchedExecutor(self.sched)
        self.cache.executor = self.exec
        self.hist = []
        self.evc = 1
        self.minmem = 0
        self.maxmem_seen = 0
        self.drift = []
        self.known_pattern = False
        self.task_info = {}     # "t<k>" -> (kind, file) filled when spawned
        self.task_locked = set()  # tasks that have run their locked section
        self.cur_op = {}

    # ---------------------------------------------------------------------------- client bodies
    def client_body(self, c):
        def body():
            for o in self.cf["progs"][c]:
                self.sched.yield_point("invoke")
                h = {"c": c, "k": o["k"], "f": o["f"], "v": o["v"], "inv": self.evc, "res": 0, "out": "?", "val": 0}
                self.evc += 1
                self.hist.append(h)
                self.cur_op[c] = o
                try:
                    if o["k"] == "get":
                        r = self.cache.get_file(o["f"])
                        h["out"], h["val"] = "value", content_id(r, self.sizes)
                    elif o["k"] == "upd":
                        r = self.cache.update_file(o["f"], content_bytes(o["v"], self.sizes))
                        h["out"] = "applied" if r else "notapplied"
                    else:
                        self.cache.unload_file(o["f"])
                        h["out"] = "ok"
                except FileNotFoundError as e:
                    h["out"] = "nofile" if o["k"] == "get" else "internalerr"
                    h["exc"] = repr(e)
                except MemoryError as e:
                    h["out"] = "memerr"
                except Blocked:
                    raise
                except BaseException as e:   # noqa
                    h["out"] = "internalerr"
                    h["exc"] = repr(e)
                h["res"] = self.evc
                self.evc += 1
        return body

    # ---------------------------------------------------------------------------------- stepping
    def _spawn_pending(self):
        while self.exec.pending_spawn:
            name, run = self.exec.pending_spawn.pop(0)
            fn = run
            self.sched.spawn(name, fn)
            self.sched.grant(name)          # prime: run to the first yield point (no shared effect before it)
            lab = self.sched.where(name)
            self.task_info[name] = lab

    def _task_file(self, name):
        # recover (kind, file) of a task from the executor's bookkeeping
        return self.task_meta.get(name)

    def grant(self, actor, expect=None):
        lab = self.sched.where(actor)
        if expect is not None and lab != expect:
            self.drift.append(f"{actor} is at '{lab}', the model expected '{expect}'")
        # known-finding pattern: an update/unload takes the lock while a task on the same file is in flight
        if lab == "lock" and actor in self.cf["progs"]:
            o = self.cur_op.get(actor)
            if o is not None and o["k"] in ("upd", "unl"):
                for t, meta in self.task_meta_items():
                    kind, f = meta
                    if f == o["f"] and t not in self.task_locked and self.sched.where(t) != "done":
                        if o["k"] == "unl" or kind == "load":
                            self.known_pattern = True
        if lab == "lock" and actor.startswith("t"):
            self.task_locked.add(actor)
        self.sched.grant(actor)
        self._spawn_pending()
        m = self.cache.current_memory_usage
        self.minmem = min(self.minmem, m)
        self.maxmem_seen = max(self.maxmem_seen, m)

    def task_meta_items(self):
        out = []
        for k, fut in enumerate(self.exec.futures, start=1):
            out.append((f"t{k}", self.meta.get(k, ("?", "?"))))
        return out

    def run(self, steps):
        fcm = self.fcm
        old_open, old_os = fcm.__dict__.get("open"), fcm.os
        fcm.open = make_open(self.sched)
        fcm.os = OsProxy(self.sched)
        # remember (kind, file) of every submitted task
        self.meta = {}
        orig_submit = self.exec.submit

        def submit(fn, *args, **kw):
            fut = orig_submit(fn, *args, **kw)
            self.meta[fut.idx] = ("load" if fn.__name__ == "_load_file" else "write", args[0])
            return fut
        self.exec.submit = submit
        try:
            for c in sorted(self.cf["progs"]):
                self.sched.spawn(c, self.client_body(c))
                self.sched.grant(c)       # start gate -> first "invoke"
            for st in steps:
                actor = st["a"]
                if self.sched.where(actor) in (None, "done"):
                    self.drift.append(f"{actor} has no step left, the model scheduled {st}")
                    continue
                self.grant(actor, LABEL_OF.get(st["l"]))
            # complete whatever the behaviour left unfinished (cut by a depth bound), deterministically
            guard = 0
            while self.sched.alive() and guard < 400:
                guard += 1
                progressed = False
                for n in self.sched.parked():
                    if self.sched.where(n) == "wait":
                        # only schedule a waiter whose future is done
                        continue
                    self.grant(n)
                    progressed = True
                    break
                if not progressed:
                    waiters = [n for n in self.sched.parked() if self.sched.where(n) == "wait"]
                    if not waiters:
                        break
                    before = self.evc
                    for n in waiters:
                        self.grant(n)
                    if self.evc == before and not [n for n in self.sched.parked() if self.sched.where(n) != "wait"]:
                        # nobody can make progress: a genuine hang
                        self.hung = list(self.sched.alive())
                        break
            self.hung = [n for n in self.sched.alive()]
        finally:
            if old_open is None:
                del fcm.open
            else:
                fcm.open = old_open
            fcm.os = old_os
        return self.project()

    def project(self):
        c = self.cache
        disk = {}
        for f in self.files:
            p = os.path.join(self.root, f)
            if os.path.exists(p):
                with open(p, "rb") as fh:
                    disk[f] = content_id(fh.read(), self.sizes)
            else:
                disk[f] = -1
        cached, nbytes = {}, {}
        for f in self.files:
            info = c.file_futures.get(f)
            if info is None:
                cached[f], nbytes[f] = -2, -1
            else:
                fut = info[-1]
                if fut.done() and fut._exc is None:
                    cached[f] = content_id(fut._res, self.sizes)
                else:
                    cached[f] = -3
                nbytes[f] = int(info[1])
        for h in self.hist:
            h.pop("exc", None)
            if h["res"] == 0:
                h["out"] = "hung"
        return {"hist": self.hist, "initdisk": dict(self.cf["disk"]), "disk": disk, "cached": cached,
                "bytes": nbytes, "heapfiles": sorted({fn for _, fn in c.file_access_times}),
                "mem": int(c.current_memory_usage), "maxmem": int(c.max_memory), "minmem": int(self.minmem),
                "hung": len(self.hung), "files": self.files}

    def cleanup(self):
        shutil.rmtree(self.root, ignore_errors=True)
