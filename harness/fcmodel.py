"""Generation of MC modules / cfg files for spec/store/FileCache.tla."""
import itertools
import os


def tla_op(o):
    return '[k |-> "%s", f |-> "%s", v |-> %d]' % (o["k"], o["f"], o["v"])


def tla_cfg(cf, clients, files):
    progs = "(" + " @@ ".join('"%s" :> <<%s>>' % (c, ", ".join(tla_op(o) for o in cf["progs"][c])) for c in clients) + ")"
    disk = "(" + " @@ ".join('"%s" :> %d' % (f, cf["disk"][f]) for f in files) + ")"
    return "[maxmem |-> %d, progs |-> %s, disk |-> %s]" % (cf["maxmem"], progs, disk)


def write_mc(d, clients, files, sizes, configs, exclude_known, record=False, name="MCFC"):
    values = sorted(int(v) for v in sizes)
    with open(os.path.join(d, f"{name}.tla"), "w") as f:
        f.write(f"---- MODULE {name} ----\nEXTENDS FileCache, Json\n")
        f.write("MCSize == " + " @@ ".join("(%d :> %d)" % (v, sizes[str(v)]) for v in values) + "\n")
        f.write("MCConfigs == {\n  " + ",\n  ".join(tla_cfg(c, clients, files) for c in configs) + "}\n")
        if record:
            f.write('''VARIABLE steps
StepOf == IF \\E c \\in Clients : pc'[c] # pc[c] \\/ opi'[c] # opi[c]
          THEN LET c == CHOOSE c \\in Clients : pc'[c] # pc[c] \\/ opi'[c] # opi[c] IN [a |-> c, l |-> pc[c]]
          ELSE LET i == CHOOSE i \\in 1..MaxFut : task'[i].pc # task[i].pc IN [a |-> "t" \\o ToString(i), l |-> task[i].pc]
InitR == Init /\\ steps = <<>>
NextR == \\/ (\\E c \\in Clients : ClientStep(c)) /\\ steps' = Append(steps, StepOf)
         \\/ (\\E i \\in 1..MaxFut : TaskStep(i)) /\\ steps' = Append(steps, StepOf)
Bad == IF ~NoInternalError THEN "InternalError" ELSE IF ~MemNonNeg THEN "MemNegative"
       ELSE IF ~Accounting THEN "Accounting" ELSE IF ~Linearizable THEN "NotLinearizable" ELSE "ok"
EmitR == AllDone => PrintT(ToJson([cf |-> cf, steps |-> steps, hist |-> hist, bad |-> Bad, mem |-> mem, bytes |-> EntryBytes, disk |-> disk]))
''')
        f.write("====\n")
    cfg = os.path.join(d, f"{name}_{int(exclude_known)}_{int(record)}.cfg")
    lines = ["INIT InitR" if record else "INIT Init", "NEXT NextR" if record else "NEXT Next", "CONSTANTS",
             "  Clients = {%s}" % ", ".join('"%s"' % c for c in clients),
             "  Files = {%s}" % ", ".join('"%s"' % x for x in files),
             "  Values = {%s}" % ", ".join(str(v) for v in values),
             "  SizeOf <- MCSize", "  Configs <- MCConfigs",
             "  ExcludeKnown = %s" % ("TRUE" if exclude_known else "FALSE")]
    if record:
        lines += ["INVARIANT EmitR", "CHECK_DEADLOCK FALSE"]
    else:
        lines += ["INVARIANT TypeOK", "INVARIANT MemNonNeg", "INVARIANT MemBounded", "INVARIANT NoInternalError",
                  "INVARIANT Accounting", "INVARIANT Linearizable"]
    with open(cfg, "w") as f:
        f.write("\n".join(lines) + "\n")
    return os.path.join(d, f"{name}.tla"), cfg


MENU = [{"k": "get", "f": "A", "v": 0}, {"k": "get", "f": "B", "v": 0},
        {"k": "upd", "f": "A", "v": 2}, {"k": "upd", "f": "A", "v": 3},
        {"k": "upd", "f": "B", "v": 1}, {"k": "unl", "f": "A", "v": 0}]


def programs(maxlen):
    out = []
    for n in range(1, maxlen + 1):
        for p in itertools.product(MENU, repeat=n):
            out.append(list(p))
    return out


def configs_2clients(lens, maxmems, disk):
    """All unordered pairs of programs with the given (len1,len2) bounds."""
    ps = programs(max(max(l) for l in lens))
    seen = set()
    out = []
    for p1 in ps:
        for p2 in ps:
            if (len(p1), len(p2)) not in lens and (len(p2), len(p1)) not in lens:
                continue
            key = tuple(sorted([repr(p1), repr(p2)]))
            if key in seen:
                continue
            seen.add(key)
            for mm in maxmems:
                out.append({"maxmem": mm, "progs": {"c1": p1, "c2": p2}, "disk": dict(disk)})
    return out
