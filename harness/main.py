"""./check <Cnn> [--tier quick|thorough] [--seed N] [--replay PATH]
exit 0: property held on everything explored (known findings are reported as KNOWN-FINDING lines)
exit 1: a VIOLATION line was printed
exit 2: the machinery itself failed
"""
import argparse
import importlib
import os
import sys
import traceback

sys.path.insert(0, os.path.dirname(os.path.abspath(__file__)))
import common  # noqa: E402


def main():
    ap = argparse.ArgumentParser()
    ap.add_argument("prop")
    ap.add_argument("--tier", default=os.environ.get("VERIF_TIER", "quick"), choices=["quick", "thorough"])
    ap.add_argument("--seed", type=int, default=int(os.environ.get("VERIF_SEED", "0") or 0))
    ap.add_argument("--replay", default=None)
    a = ap.parse_args()
    prop = a.prop.upper()
    if prop == "SETUP":
        import setup
        return setup.main()
    try:
        mod = importlib.import_module("props." + prop.lower())
    except ModuleNotFoundError:
        print(f"no check for {prop}", file=sys.stderr)
        return 2
    try:
        if a.replay:
            return mod.replay(a.replay)
        return mod.run(a.tier, a.seed)
    except common.MachineryError as e:
        print(f"MACHINERY-FAILURE property={prop}: {e}", file=sys.stderr)
        return 2
    except Exception:
        sys.stderr.write(traceback.format_exc())
        print(f"MACHINERY-FAILURE property={prop}: unexpected exception", file=sys.stderr)
        return 2


if __name__ == "__main__":
    rc = main()
    sys.stdout.flush()
    sys.stderr.flush()
    os._exit(rc if isinstance(rc, int) else 0) if False else sys.exit(rc)
