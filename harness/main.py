"""./check <Cnn> [--tier quick|thorough] [--seed N] [--replay PATH]
exit 0: property held on everything explored (known findings are reported as KNOWN-FINDING lines)
exit 1: a VIOLATION line was printed
exit 2: the machinery itself failed
"""
import argparse
import importlib
import os
import sys
import traceback

sys.path.insert(0, os.path.dirname(os.path.abspath(__file__)))
import common  # noqa: E402


class _Unclosable:
    """stdout / stderr for the check itself: the interpreter under test wraps sys.stdout in channel objects whose finaliser closes
    the stream (a change that drops those objects must not silence the verdict lines)"""
    def __init__(self, fd):
        self._f = os.fdopen(os.dup(fd), "w", buffering=1, errors="replace")

    def write(self, s):
        return self._f.write(s)

    def flush(self):
        try:
            self._f.flush()
        except Exception:   # noqa
            pass

    def close(self):
        pass

    def fileno(self):
        return self._f.fileno()

    def isatty(self):
        return False

    def __getattr__(self, name):
        return getattr(self._f, name)


def main():
    sys.stdout = _Unclosable(1)
    sys.stderr = _Unclosable(2)
    ap = argparse.ArgumentParser()
    ap.add_argument("prop")
    ap.add_argument("--tier", default=os.environ.get("VERIF_TIER", "quick"), choices=["quick", "thorough"])
    ap.add_argument("--seed", type=int, default=int(os.environ.get("VERIF_SEED", "0") or 0))
    ap.add_argument("--replay", default=None)
    a = ap.parse_args()
    prop = a.prop.upper()
    if prop == "SETUP":
        import setup
        return setup.main()
    try:
        mod = importlib.import_module("props." + prop.lower())
    except ModuleNotFoundError:
        print(f"no check for {prop}", file=sys.stderr)
        return 2
    try:
        if a.replay:
            return mod.replay(a.replay)
        return mod.run(a.tier, a.seed)
    except common.MachineryError as e:
        print(f"MACHINERY-FAILURE property={prop}: {e}", file=sys.stderr)
        return 2
    except Exception:
        sys.stderr.write(traceback.format_exc())
        print(f"MACHINERY-FAILURE property={prop}: unexpected exception", file=sys.stderr)
        return 2


if __name__ == "__main__":
    rc = main()
    try:
        import atexit
        atexit._run_exitfuncs()          # scratch directories are removed here
    except Exception:   # noqa
        pass
    sys.stdout.flush()
    sys.stderr.flush()
    os._exit(rc if isinstance(rc, int) else 0)      # (no interpreter shutdown: finalisers of the code under test stay out of it)
