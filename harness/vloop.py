"""Virtual-time asyncio event loop driven step by step by the harness.

The real asyncio scheduling code (`BaseEventLoop._run_once`, `TimerHandle`, `_clock_resolution`) runs;
only the clock and the selector are ours.  `step()` performs one loop iteration: timers whose deadline
is before `time() + _clock_resolution` are moved to the ready queue and every ready handle is run once.
"""
import asyncio
import threading
from asyncio import base_events, events


class _FakeSelector:
    def select(self, timeout=None):
        return []

    def close(self):
        pass


class VLoop(base_events.BaseEventLoop):
    def __init__(self, start=0.0, resolution=1e-9):
        self._wake = threading.Event()
        self._vtime = start
        super().__init__()
        self._clock_resolution = resolution
        self._selector = _FakeSelector()
        self.exceptions = []
        self.set_exception_handler(lambda loop, ctx: self.exceptions.append(ctx))

    # -- clock -----------------------------------------------------------------------------
    def time(self):
        return self._vtime

    def set_time(self, t):
        self._vtime = t

    def advance(self, dt):
        self._vtime += dt

    # -- plumbing required by BaseEventLoop --------------------------------------------------
    def _process_events(self, event_list):
        pass

    def _write_to_self(self):
        self._wake.set()

    def is_running(self):
        # IPC code asks loop.is_running(); the harness "runs" the loop by stepping it
        return not getattr(self, "_vclosed", False)

    def close(self):
        self._vclosed = True
        super().close()

    # -- stepping ---------------------------------------------------------------------------
    def step(self):
        """One iteration of the real _run_once with this loop installed as the running loop."""
        old = events._get_running_loop()
        events._set_running_loop(self)
        self._thread_id = threading.get_ident()
        try:
            self._wake.clear()
            self._run_once()
        finally:
            self._thread_id = None
            events._set_running_loop(old)

    def has_ready(self):
        return bool(self._ready)

    def next_deadline(self):
        live = [h._when for h in self._scheduled if not h._cancelled]
        return min(live) if live else None

    def run_ready(self, limit=1000):
        """Step until nothing is ready (timers are not advanced)."""
        n = 0
        while self._ready and n < limit:
            self.step()
            n += 1
        return n

    def _run_once(self):
        # BaseEventLoop._run_once computes a select() timeout from the next deadline; our selector
        # returns at once, so the timeout is irrelevant; everything else is asyncio's own code.
        super()._run_once()
