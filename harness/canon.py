"""Projection between Python results of the interpreter and the JSON form of spec/kg/KgValues.tla,
and rendering of spec values as Klong literal source."""
from fractions import Fraction

import common

_types = None


def T():
    global _types
    if _types is None:
        common.use_repo()
        import numpy as np
        from klongpy.core import KGSym, KGChar, KLONG_UNDEFINED, KGFn, KGLambda, KGCall
        from klongpy.types import KGFnWrapper
        _types = dict(np=np, KGSym=KGSym, KGChar=KGChar, UNDEF=KLONG_UNDEFINED, KGFn=KGFn, KGLambda=KGLambda,
                      KGCall=KGCall, KGFnWrapper=KGFnWrapper)
    return _types


def rational(x, maxden=100000):
    f = Fraction(x).limit_denominator(maxden)
    if abs(float(f) - x) <= 1e-9 * max(1.0, abs(x)):
        return [f.numerator, f.denominator]
    return None


def canon(v):
    """Python value -> spec value (dict with t/v)."""
    t = T()
    np = t["np"]
    if v is t["UNDEF"]:
        return {"t": "u", "v": 0}
    if v is None:
        return {"t": "x", "v": "None"}
    if isinstance(v, t["KGSym"]):
        return {"t": "y", "v": [ord(c) for c in str(v)]}
    if isinstance(v, t["KGChar"]):
        return {"t": "c", "v": ord(str(v)[0]) if len(str(v)) else 0}
    if isinstance(v, str):
        return {"t": "s", "v": [ord(c) for c in v]}
    if isinstance(v, (bool, np.bool_)):
        return {"t": "b", "v": int(v)}
    if isinstance(v, (int, np.integer)):
        return {"t": "i", "v": int(v)}
    if isinstance(v, (float, np.floating)):
        x = float(v)
        if x != x or x in (float("inf"), float("-inf")):
            return {"t": "x", "v": repr(x)}
        r = rational(x)
        return {"t": "r", "v": r} if r is not None else {"t": "x", "v": repr(x)}
    if isinstance(v, dict):
        return {"t": "d", "v": [[canon(k), canon(x)] for k, x in v.items()]}
    if isinstance(v, np.ndarray):
        if v.ndim == 0:
            return canon(v.item())
        return {"t": "l", "v": [canon(x) for x in v]}
    if isinstance(v, (list, tuple)):
        return {"t": "l", "v": [canon(x) for x in v]}
    if isinstance(v, (t["KGFn"], t["KGLambda"], t["KGFnWrapper"])) or callable(v):
        return {"t": "f", "v": 0}
    if hasattr(v, "detach") and hasattr(v, "cpu"):      # torch tensor
        return canon(v.detach().cpu().numpy())
    return {"t": "x", "v": type(v).__name__}


def same(exp, got, tol=1e-9):
    """Structural identity of an expected spec value and a canonicalised observation (reals by value)."""
    if exp["t"] != got["t"]:
        return False
    k = exp["t"]
    if k == "l":
        return len(exp["v"]) == len(got["v"]) and all(same(a, b, tol) for a, b in zip(exp["v"], got["v"]))
    if k == "d":
        return len(exp["v"]) == len(got["v"]) and all(same(a[0], b[0], tol) and same(a[1], b[1], tol)
                                                       for a, b in zip(exp["v"], got["v"]))
    if k == "r":
        a, b = Fraction(*exp["v"]), Fraction(*got["v"])
        return a == b or abs(float(a) - float(b)) <= tol * max(1.0, abs(float(a)))
    return exp["v"] == got["v"]


def same_mod(exp, got, numeric=False, char1=False, tol=1e-9):
    """same() up to the named relaxations: numeric = integer/real kind ignored (compared by value);
    char1 = a character and a one-character string are identified."""
    e, g = exp, got
    if char1:
        # a list made only of characters / one-character strings and the string of those characters are identified too
        def aslist(v):
            if v["t"] == "l" and not v["v"]:
                return {"t": "s", "v": []}
            if v["t"] == "l" and v["v"] and all(x["t"] == "c" or (x["t"] == "s" and len(x["v"]) == 1) for x in v["v"]):
                return {"t": "s", "v": [x["v"] if x["t"] == "c" else x["v"][0] for x in v["v"]]}
            return v
        e, g = aslist(e), aslist(g)
    if char1:
        if e["t"] == "c":
            e = {"t": "s", "v": [e["v"]]}
        if g["t"] == "c":
            g = {"t": "s", "v": [g["v"]]}
    if numeric and e["t"] in ("i", "r") and g["t"] in ("i", "r"):
        a = Fraction(e["v"]) if e["t"] == "i" else Fraction(*e["v"])
        b = Fraction(g["v"]) if g["t"] == "i" else Fraction(*g["v"])
        return a == b or abs(float(a) - float(b)) <= tol * max(1.0, abs(float(a)))
    if e["t"] != g["t"]:
        return False
    if e["t"] == "l":
        return len(e["v"]) == len(g["v"]) and all(same_mod(a, b, numeric, char1, tol) for a, b in zip(e["v"], g["v"]))
    return same(e, g, tol)


def shape(v):
    if v["t"] == "s":
        return (len(v["v"]),)
    if v["t"] != "l":
        return ()
    if not v["v"]:
        return (0,)
    subs = [shape(x) for x in v["v"]]
    if subs[0] != () and all(x == subs[0] for x in subs):
        return (len(v["v"]),) + subs[0]
    return (len(v["v"]),)


def render(v):
    """Spec value -> Klong source text of a literal (or of an expression yielding it)."""
    k = v["t"]
    if k == "i":
        return str(v["v"]) if v["v"] >= 0 else f"-{-v['v']}"
    if k == "r":
        n, d = v["v"]
        x = n / d
        s = repr(float(x))
        return s if x >= 0 else "-" + repr(float(-x))
    if k == "c":
        return "0c" + chr(v["v"])
    if k == "s":
        return '"' + "".join(chr(c) for c in v["v"]).replace('"', '""') + '"'
    if k == "y":
        return ":" + "".join(chr(c) for c in v["v"])
    if k == "l":
        return "[" + " ".join(render(x) for x in v["v"]) + "]"
    if k == "d":
        return ":{" + " ".join("[" + render(a) + " " + render(b) + "]" for a, b in v["v"]) + "}"
    if k == "u":
        return "(:{}?0)"
    raise ValueError(k)


def show(v):
    """Compact human-readable form of a spec value."""
    try:
        return render(v)
    except Exception:
        return str(v)
