"""File-system recorder for C17: runs a real process that performs key-value sets under `strace -f` and
turns the system calls touching the store directory into the events of spec/store/Durable.tla."""
import json
import os
import re
import subprocess
import sys

import common

CHILD = r'''
import json, os, sys
sys.path.insert(0, sys.argv[1])
root, prog = sys.argv[2], json.loads(sys.argv[3])
from klongpy import KlongInterpreter
k = KlongInterpreter()
k('.py("klongpy.db")')
k["kvdir"] = root
k("kvs::.kvs(kvdir)")
for name, src in prog["values"].items():
    k(f"{name}::{src}")
def mark(s):
    try:
        os.stat("/MARK/" + s)
    except OSError:
        pass
import threading
store = k["kvs"]
for i, item in enumerate(prog["sets"]):
    if item[0] == "||":
        # a group of concurrent sets on one key through KeyValueStorage.set, released together by a barrier
        members = item[1:]
        key = members[0][0]
        bar = threading.Barrier(len(members))
        def setter(val):
            obj = k[val]
            bar.wait()
            store.set(key, obj)
        ths = [threading.Thread(target=setter, args=(val,)) for _, val in members]
        mark(f"gbegin/{i}")
        for t in ths: t.start()
        for t in ths: t.join()
        live = store.get(key)
        vid = 0
        for j, (_, val) in enumerate(members):
            from klongpy.db.sys_fn_kvs import serialize_obj
            if serialize_obj(k[val]) == serialize_obj(live):
                vid = j + 1
        mark(f"greturn/{i}/{vid}")
        continue
    key, val = item
    mark(f"begin/{i}")
    k(f'kvs,"{key}",,{val}')
    mark(f"return/{i}")
mark("end/0")
'''

_LINE = re.compile(r"^(?:\[pid\s+(\d+)\]\s+|(\d+)\s+)?(.*)$")


def _unhex(s):
    return bytes(int(x, 16) for x in re.findall(r"\\x([0-9a-f]{2})", s))


def strace_lines(root, prog, timeout=120, kill_at=None):
    """kill_at: name of a system call; the recorded process is killed (SIGKILL) when it ENTERS that call for the first time after
    the first mark - the data it has written so far stay in the page cache, nothing more is synced"""
    out = os.path.join(common.scratch(), f"strace-{os.getpid()}-{abs(hash(json.dumps(prog)))}-{kill_at}.txt")
    cmd = ["strace", "-f", "-o", out, "-xx", "-s", "300000"] + ([f"--inject={kill_at}:signal=SIGKILL"] if kill_at else []) + [
           "-e", "trace=openat,open,creat,write,pwrite64,writev,fsync,fdatasync,sync_file_range,close,mkdir,mkdirat,"
                 "rename,renameat,renameat2,unlink,unlinkat,ftruncate,truncate,newfstatat,stat",
           "/venv/bin/python", "-W", "ignore", "-c", CHILD, common.REPO, root, json.dumps(prog)]
    p = subprocess.run(cmd, stdout=subprocess.PIPE, stderr=subprocess.PIPE, timeout=timeout, text=True)
    if kill_at:
        if p.returncode == 0:
            os.remove(out)
            return None             # the process never made that call: the scenario cannot be built
    elif p.returncode != 0:
        raise common.MachineryError(f"recorder child failed rc={p.returncode}: {p.stderr[-2000:]}")
    with open(out, errors="replace") as f:
        lines = f.read().splitlines()
    os.remove(out)
    return lines


def parse(lines, root):
    """-> list of raw syscall events in completion order: dicts with call, args text, ret, pid"""
    pending = {}
    calls = []
    for ln in lines:
        m = re.match(r"^(\d+)\s+(.*)$", ln)
        if not m:
            continue
        pid, rest = m.group(1), m.group(2)
        if rest.endswith("<unfinished ...>"):
            pending[pid] = rest[:-len("<unfinished ...>")]
            continue
        m2 = re.match(r"^<\.\.\. (\w+) resumed>(.*)$", rest)
        if m2:
            rest = pending.pop(pid, m2.group(1) + "(") + m2.group(2)
        m3 = re.match(r"^(\w+)\((.*)\)\s+=\s+(-?\d+|\?)(.*)$", rest, re.S)
        if not m3:
            continue
        calls.append({"pid": pid, "call": m3.group(1), "args": m3.group(2), "ret": m3.group(3)})
    return calls


def to_events(calls, root, values_bytes):
    """values_bytes: {value name: serialized bytes}.  Returns (events, paths, notes)."""
    hexroot = "".join("\\x%02x" % b for b in root.encode())
    fds = {}           # (fd) -> relative path (one process, fds are process-wide)
    dirfds = {}        # fd of a directory inside the store -> relative path
    written = {}       # path -> bytes currently in kernel
    events, notes = [], []
    paths = set()
    cur = None

    def rel(hexpath):
        p = _unhex(hexpath).decode("utf8", "replace")
        if p.startswith(root + "/"):
            return p[len(root) + 1:]
        if p.rstrip("/") == root:
            return ""               # the store's root directory itself
        return None

    def classify(path):
        b = written.get(path, b"")
        if len(b) == 0:
            return (0, 0)
        for vid, (name, data) in enumerate(values_bytes, start=1):
            if data[:len(b)] == b:
                return (vid, len(b))
        return (99, len(b))

    for c in calls:
        call, args, ret = c["call"], c["args"], c["ret"]
        if call in ("newfstatat", "stat"):
            m = re.search(r'"((?:\\x[0-9a-f]{2})+)"', args)
            if m:
                p = _unhex(m.group(1)).decode("utf8", "replace")
                if p.startswith("/MARK/"):
                    parts = p[6:].split("/")
                    events.append({"ev": "mark", "kind": parts[0], "i": int(parts[1]), "extra": parts[2:]})
            continue
        if ret in ("?",) or (ret.startswith("-") and call not in ()):
            continue
        if call in ("openat", "open", "creat"):
            m = re.search(r'"((?:\\x[0-9a-f]{2})+)"', args)
            if not m:
                continue
            r = rel(m.group(1))
            if r is None:
                continue
            if "O_DIRECTORY" in args:
                dirfds[ret] = r
                continue
            if "O_WRONLY" in args or "O_RDWR" in args or call == "creat":
                fds[ret] = r
                paths.add(r)
                if "O_TRUNC" in args or call == "creat":
                    written[r] = b""
                    events.append({"ev": "otrunc", "path": r})
                else:
                    notes.append(f"open for writing without O_TRUNC: {r}")
        elif call in ("write", "pwrite64"):
            fd = args.split(",", 1)[0].strip()
            if fd in fds:
                m = re.search(r'"((?:\\x[0-9a-f]{2})*)"', args)
                data = _unhex(m.group(1)) if m else b""
                n = int(ret)
                path = fds[fd]
                written[path] = written.get(path, b"") + data[:n]
                v, upto = classify(path)
                events.append({"ev": "write", "path": path, "v": v, "upto": upto})
        elif call == "writev":
            fd = args.split(",", 1)[0].strip()
            if fd in fds:
                notes.append("writev on a store file is not decoded")
                events.append({"ev": "write", "path": fds[fd], "v": 99, "upto": 1})
        elif call in ("fsync", "fdatasync"):
            fd = args.strip()
            if fd in fds:
                events.append({"ev": "fsync", "path": fds[fd]})
            elif fd in dirfds:
                events.append({"ev": "dirsync", "path": dirfds[fd]})
        elif call == "close":
            fd = args.strip()
            dirfds.pop(fd, None)
            if fd in fds:
                events.append({"ev": "close", "path": fds.pop(fd)})
        elif call in ("mkdir", "mkdirat"):
            m = re.search(r'"((?:\\x[0-9a-f]{2})+)"', args)
            if m:
                r = rel(m.group(1))
                if r is not None:
                    events.append({"ev": "mkdir", "path": r})
        elif call in ("rename", "renameat", "renameat2"):
            m = [rel(x) for x in re.findall(r'"((?:\\x[0-9a-f]{2})+)"', args)]
            if len(m) == 2 and m[0] is not None and m[1] is not None:
                paths.update(m)
                if m[0] in written:
                    written[m[1]] = written.pop(m[0])
                for fd_, p_ in list(fds.items()):
                    if p_ == m[0]:
                        fds[fd_] = m[1]
                events.append({"ev": "rename", "path": m[0], "to": m[1]})
            elif any(x is not None for x in m):
                notes.append(f"rename across the store boundary: {call}")
                events.append({"ev": "unmodelled", "call": call})
        elif call in ("unlink", "unlinkat", "ftruncate", "truncate"):
            m = re.findall(r'"((?:\\x[0-9a-f]{2})+)"', args)
            if any(rel(x) is not None for x in m):
                notes.append(f"unmodelled call on the store directory: {call}")
                events.append({"ev": "unmodelled", "call": call})
    return events, sorted(paths), notes
