"""Generates /verif/MANIFEST.json from the table below (one source of truth, always schema-valid)."""
import json
import os

VERIF = os.path.dirname(os.path.dirname(os.path.abspath(__file__)))

BASELINE = ("cd /repo && env -u KLONGPY_VERIF /venv/bin/python -m pytest -ra -q -p no:cacheprovider --timeout=900 "
            "--continue-on-collection-errors")

CHECKS = {
    "C15": dict(
        technique="TLA+ model (Timer.tla) checked by TLC against a monitor spec (TimerAbs.tla); TLC-generated "
                  "behaviours replayed into the real timer code on a virtual asyncio loop; recorded logs "
                  "validated by TLC (TimerTrace.tla)",
        text="Exhaustive TLC check of an implementation-shaped model of _call_periodic/.timerc on an asyncio loop "
             "(ready queue, timer heap, early dispatch within clock resolution, slow callbacks, cancellation from "
             "inside/outside, redefinition) against the tick rule; every TLC behaviour is executed by the real code "
             "under a virtual clock and every recorded log is re-judged by TLC against the same rule.",
        note="Trusted: TLC, harness/vloop.py (asyncio's own _run_once on a virtual clock), the scripted callbacks. "
             "Bounds: 2 timers, <= 8 callback invocations per behaviour, intervals {0,1,2,3,5,10}s, 3-4 start offsets.",
        design_ref="DESIGN.md section 5 C15"),
}

CHECKS["C16"] = dict(
    technique="TLA+ model (FileCache.tla, sequential configuration) checked by TLC against CacheAbs.tla for every "
              "operation sequence; each sequence executed through the Klong surface; results, byte totals and "
              "accounting fields after every call validated by TLC (CacheTrace.tla); table store: TLC-generated histories "
              "(TableStoreGen.tla) through the Klong surface of .tables, merge semantics and accounting judged by TLC "
              "(TableStoreAbs.tla / TableStoreTrace.tla)",
    text="TLC enumerates every operation sequence up to the bound (set/get/missing key/reopen/unload/oversize, flat and "
         "nested keys) x cache limits on the implementation-shaped model and checks dictionary semantics and the accounting "
         "invariants; the same sequences run on the real KeyValueStorage with the real pickled sizes as model sizes: the "
         "model's predicted result and byte total after every call must match (drift) and the recorded history and "
         "snapshots are judged by TLC against the abstract dictionary + accounting spec.",
    note="Trusted: TLC, the projection of FileCache fields, pickle. Bounds: sequences <= 3 (thorough 4) ops, 4 keys, "
         "3 sizes + one round trip per value kind, 3 limits. Table store: all histories of 3 operations and seeded histories of 7 "
         "(set of 4 tables with overlapping / disjoint / contained index ranges on 3 keys, get incl. a never-set key, reopen, "
         "unload) x 3 limits placed between pickled and in-memory sizes.",
    design_ref="DESIGN.md section 5 C16")
CHECKS["C18"] = dict(
    technique="TLA+ model (FileCache.tla) of clients + worker tasks checked exhaustively by TLC against CacheAbs.tla "
              "(linearizability, final agreement, accounting, deadlock); TLC-generated interleavings executed by the real "
              "FileCache under a deterministic thread scheduler; recorded histories validated by TLC (CacheTrace.tla)",
    text="All interleavings (at the granularity of lock sections, task submission/completion, future waits and file-system "
         "calls) of every pair of client programs from a menu are model-checked; thousands of complete interleavings are "
         "replayed on the real FileCache with its lock, executor, futures and file-system calls interposed, and the real "
         "histories/final states are judged by TLC against the register specification.",
    note="Trusted: TLC, harness/sched.py (one controlled thread runs at a time; yield points = spec labels). Known finding "
         "F-C18-inflight is excluded from the exhaustive check and demonstrated separately. Bounds: 2-3 clients, <= 2 ops, "
         "2 files, limits {3,5}.",
    design_ref="DESIGN.md section 5 C18")

CHECKS["C17"] = dict(
    technique="TLA+ persistence model + durability rule (Durable.tla) evaluated by TLC at every crash point of "
              "system-call logs recorded with strace from a real process (DurableTrace.tla); implementation-shaped "
              "model DurableImpl.tla model-checked; DurableConc.tla (concurrent setters: critical section of update_file, write jobs, refused "
              "writes; group durability, liveness) model-checked and bound by barrier-released real threads under strace -f; rename and "
              "directory sync in the model; traces of a process killed inside a set (strace injection) followed by a second process; crash images "
              "computed by TLC materialised and recovered by the real store",
    category="fault_enumeration",
    text="Every prefix of the real system-call log (mkdir/open-truncate/write/fsync/close) of every set in several "
         "sequences is a crash point; at each TLC evaluates the rule over all allowed losses of unsynced data (none, all, "
         "every byte prefix); sampled crash images are written to disk and opened by a fresh real KeyValueStorage.",
    note="Assumes fsync(fd) also persists the directory entry (and directories created for the key). Trusted: strace's "
         "completion order, TLC, the mapping of written bytes to value prefixes. A rename is atomic but durable only after a sync of its directory; "
         "unlink / truncate on the store directory are not modelled (the check then stops with a machinery failure, not an alarm). "
         "Concurrent setters and killed-then-retried sets go beyond the sequential quantifier of the property.",
    design_ref="DESIGN.md section 5 C17")

CHECKS["C19"] = dict(
    technique="TLA+ refinement check by TLC: implementation-shaped Table.tla (_df + insert buffer + commit-on-read) against "
              "the abstract table monitor TableAbs.tla; TLC-generated operation histories executed through the Klong surface; "
              "recorded observations validated by TLC (TableTrace.tla)",
    text="All operation histories up to the bound (insert, batch insert incl. two rows with one key, re-insert of an existing "
         "key, column read, count, schema, index on one/two columns, drop index, add column, SQL) are model-checked for "
         "'buffering is unobservable'; the same histories run on the real Table via Klong and every observation is judged by "
         "TLC against the list-of-rows specification, in particular reads that are NOT preceded by #t.",
    note="Trusted: TLC, the projection of results to cell texts (numeric kind ignored), pandas/duckdb. Bounds: 3 columns "
         "(int, real, string), 3 initial rows, 4 single rows + 2 batches, histories <= 3 exhaustive / 7 sampled.",
    design_ref="DESIGN.md section 5 C19")

CHECKS["C13"] = dict(
    technique="TLA+ model of the framing reader (Wire.tla) model-checked by TLC over every fragmentation; TLC-generated "
              "fragmentations fed to the real StreamReader/stream_recv_msg and - with pauses of virtual time - to the listener of a real "
              "NetworkClient in its server role, judged by TLC (WireTrace.tla); TLC-generated "
              "remote-operation histories (Remote.tla) executed against a live loopback server and judged by TLC against "
              "the shared-environment spec IpcAbs.tla (RemoteTrace.tla)",
    text="(i) every way of cutting the real byte stream of 1-3 frames into <= 3 reads, ending at every byte-boundary class, is "
         "explored on the model and executed on the real reader: delivered = the frames, intact, one by one, in order; "
         "(ii) histories of f(text), f(:fn,args) incl. nilads, proxies and remote dictionary get/set issued by one or two client "
         "interpreters over a transportable universe "
         "(numbers, strings, symbols, characters, nested lists, dictionaries, :undefined) run against a live server; "
         "client-side results must be those of one shared server environment; :undefined must still test as undefined.",
    note="Trusted: TLC, asyncio.StreamReader, the canonicalisation of results. pickle fidelity is observed, not modelled. "
         "A server-side failing command legitimately tears the connection down: the rest of such a history is not judged. "
         "Calls that do not return are C14's subject (counted here, not judged).",
    design_ref="DESIGN.md section 5 C13")

CHECKS["C14"] = dict(
    technique="TLA+ model (Ipc.tla) of caller threads, io loop, listener/cleanup and a faulty peer, model-checked by TLC "
              "against the monitor IpcCallAbs.tla (own answer, at most once, no call left waiting at quiescence); TLC-generated "
              "behaviours executed by the real NetworkClient (real caller threads under a deterministic scheduler, virtual io "
              "loop, hand-fed StreamReader); recorded histories validated by TLC (IpcCallTrace.tla)",
    text="All interleavings of up to 3 concurrent calls (is_open check, registration, scheduling as separate steps), responses "
         "in any order, connection loss at any point incl. inside a response frame, and caller registrations in the middle of "
         "the listener's cleanup, a drain() that waits for the transport, one caller running close() and close requests from the peer "
         "are explored on the model; thousands of them run on the real code; a caller still inside call() when the virtual system is "
         "quiescent is a hang.",
    note="Trusted: TLC, harness/vloop.py + sched.py, the FOR_ITER criterion for where a thread switch can fall inside a loop over "
         "pending_responses. conn_provider.close() and the server side of the shutdown handshake are not modelled; a server-side "
         "evaluation failure tears the connection down (= PCut). Bounds: 3 callers, one call each.",
    design_ref="DESIGN.md section 5 C14")

CHECKS["C20"] = dict(
    technique="TLA+ monitor WebAbs.tla (routes, .webc, websocket delivery) with generator Web.tla enumerated by TLC; TLC-generated "
              "histories executed against the real .web server on loopback and the real websocket listen loop; recorded "
              "histories validated by TLC (WebTrace.tla)",
    text="Histories over route tables (subsets of 3 GET / 2 POST paths), requests (registered, unknown path, wrong method, raising "
         "handler), parameter dictionaries with non-ASCII and URL-encoded characters, handler redefinition and .webc are "
         "enumerated by TLC and run against a live server: exactly one handler call with exactly the request's parameters, body = "
         "text of the result, 400 for a failing handler only, nothing for unregistered paths, refused after .webc. Websocket: "
         "messages of every JSON kind reach .ws.m once, in order, intact; sent values arrive as their JSON encoding.",
    note="Trusted: TLC, aiohttp, http.client, the scripted websocket object (the listen loop, JSON codec and dispatch are real). "
         "A top-level JSON null message is not generated (None means 'missing argument' to Klong calls).",
    design_ref="DESIGN.md section 5 C20")

CHECKS["C01"] = dict(
    technique="executable TLA+ reference semantics of the verbs (KgVerbs.tla over KgValues.tla) evaluated by TLC on every in-domain "
              "case of a closed operand universe (KgUniverse.tla); each case replayed as literal source into KlongInterpreter and "
              "compared structurally (nesting, elements, integer/real/character/string kind)",
    category="model_checking",
    text="The specification is the oracle: one TLA+ operator per verb transcribed from the reference text in the docstrings, with "
         "a conservative domain predicate; TLC enumerates 19 monads and 23 dyads over 33 (thorough 51) operands incl. empty, "
         "nested, ragged, matrix, string operands and negative / overshooting counts, and computes the prescribed value for "
         "each of ~8.6k (thorough ~20k) in-domain cases; the real interpreter must return exactly that value.",
    note="Trusted: TLC, my transcription of the reference text, canon.py / render. 18 families of disagreement with the reference "
         "are listed as open findings (known_findings.json F-C01-*), matched by verb / operand class / difference class; any "
         "disagreement outside them is a VIOLATION. Not transcribed yet: $ :$ a$b :- :@. Reals restricted to exact rationals.",
    design_ref="DESIGN.md section 5 C01")

CHECKS["C02"] = dict(
    technique="executable TLA+ definitional expansion of the adverbs (KgAdverbs.tla: one generic fold / scan / map over Ap1/Ap2 of "
              "the verb) evaluated by TLC over adverb x verb x operand cases (KgAdvCases.tla); each case replayed as source "
              "into KlongInterpreter and compared structurally",
    text="The specification knows no shortcut: f/a is the left fold of plain applications, f\\a its prefixes, f'a the map, and so on "
         "for all 16 adverbs (17 forms, incl. While / Scan-While with two verbs) incl. the atom / single-element / empty / string cases and two-adverb chains; verbs are operators, "
         "lambdas (non-commutative, non-associative), a projection and Python callables. TLC evaluates ~9k (thorough ~25k) "
         "cases; the implementation, with all its operator shortcuts (ufunc.reduce/accumulate ...), must agree on each.",
    note="Trusted: TLC, the transcription, canon/render. Open findings F-C02-* (matched by form / verb / operand class / difference "
         "class) cover the listed deviations; anything else is a VIOLATION. Each case also runs with its operands held by variables of a long-lived "
         "interpreter and as a function body called twice (operands must stay unchanged). Dictionary operands of Each are C10's; a list as neutral element of a f/b, a f\\b is outside the judged domain (the reference gives two "
         "non-equivalent descriptions).",
    design_ref="DESIGN.md section 5 C02")

CHECKS["C03"] = dict(
    technique="TLA+ big-step evaluator KgEval.tla (value of the body under substitution) evaluated by TLC as oracle for generated "
              "bodies x arguments; every call form and projection fill order replayed into KlongInterpreter; fault sequences "
              "recorded (snapshots, context depth, follow-up vs. twin) and judged by TLC against FrameAbs.tla",
    text="For ~700 (thorough ~8k) in-domain (body, arguments) pairs TLC computes the value of the substituted body; the interpreter "
         "must return it through direct call, inline lambda, variable, @, adverb verb, .f recursion and through every projection "
         "pattern of arity 2/3 in every fill order; conditionals over 13 truth classes must run exactly the selected branch; a failing "
         "call at 15 sub-expression positions of three nested calls with locals must leave variables, context depth and later "
         "programs as the frame discipline prescribes.",
    note="Trusted: TLC, KgEval/KgVerbs transcription, snapshot projection of the interpreter context. Bodies use + - * , # and "
         "negation over x y z, literals and two globals.",
    design_ref="DESIGN.md section 5 C03")

CHECKS["C04"] = dict(
    technique="TLA+ transition system KgMachine.tla over a closed statement alphabet, explored by TLC (frame condition as action "
              "property, behaviours emitted); every behaviour replayed step by step into two real interpreters (A: whole history, "
              "B: fresh + specification pre-state) with result and full variable snapshot compared to the specification's; a value that "
              "A and B share but the specification does not give is re-evaluated in a forked child of a process that has evaluated nothing",
    text="History-independence and value semantics are decided by executing each of ~2.7k (thorough ~40k) statement histories twice: "
         "an interpreter that carries the whole history (parse cache, compiled caches, NumPy buffers possibly shared between "
         "variables, literals inside function bodies) and a fresh interpreter per step loaded with the specification's pre-state "
         "must both give the specification's value and leave exactly the specification's environment.",
    note="Trusted: TLC, KgEval/KgVerbs transcription, the snapshot of interpreter variables. Alphabet: 52 statements over 5 variables "
         "(assign, alias, amend of copies / takes / reverses / reshapes / transposes / rows, join, drop, functions with list and "
         "dictionary literals, +/). Module switches and tables not included yet.",
    design_ref="DESIGN.md section 5 C04")

CHECKS["C05"] = dict(
    technique="TLA+ model of the compiler's caches (KgCache.tla: text-keyed cache cleared on rebinding, per-node memo never cleared, "
              "admission by value class) model-checked by TLC and used to generate evaluation/rebinding histories; KgEval.tla "
              "evaluated by TLC as oracle; every history executed by two real interpreters (compiler on / compile_expr stubbed)",
    text="For histories over 4 evaluation positions x 3 rebinding routes x 7 value classes, instantiated with expressions of the "
         "compilable grammar (depth <= 2, thorough 3), every evaluation must give the same value - structure, elements, integer/real "
         "kind, error for error - with and without the compiler, and KgEval's value where defined.",
    note="Trusted: TLC, KgEval/KgVerbs transcription, the stub of compile_expr (module attribute replaced from the harness). NumPy "
         "backend only (torch: C08). Disagreements of BOTH runs with KgEval are C01's subject and only counted.",
    design_ref="DESIGN.md section 5 C05")

CHECKS["C10"] = dict(
    technique="TLA+ monitor of a heap of insertion-ordered finite maps with references (DictAbs.tla); Dict.tla generates operation "
              "histories with the prescribed observations (TLC: exhaustive tree + -simulate); every history executed by a real "
              "KlongInterpreter, the observed results validated by TLC (DictTrace.tla) against DictAbs",
    text="All histories of 3 (thorough 4) operations and seeded histories of 9 operations - literal, literal inside a function, alias, "
         "add/overwrite from either side, find, remove, size, each - over keys of every hashable kind (integers literal/computed/"
         "negative, real, character, string, empty string, symbol, incl. character = string = symbol text) and 6 values, through two "
         "variables: every find/size/each result must be what a finite map shared by its aliases gives.",
    note="Trusted: TLC, the textual rendering of keys/values. A violating history is attributed to the open finding F-C10-same-text-keys "
         "only if DictAbs accepts it with exactly that finding's key collisions added. d@k and 1 vs 1.0 keys are not enumerated.",
    design_ref="DESIGN.md section 5 C10")

CHECKS["C09"] = dict(
    technique="TLA+ monitor of the interpreter as a dictionary of names (data / Python callable / Klong function), per-callable invocation "
              "counters and Python-side handles (PyAbs.tla); PyGen.tla generates interop histories with the prescribed logs and results "
              "(TLC: exhaustive tree + -simulate); every history executed by a real KlongInterpreter with instrumented callables, the "
              "recorded invocation logs and results validated by TLC (PyTrace.tla)",
    text="All histories of 3 (thorough 4) operations on one name and seeded histories of 8 operations on two names: store/read data, store "
         "callables of 8 signature shapes (arity 0..3, with/without a leading klong), apply them directly, through @, projections, Each, "
         "Over and from Python; define/redefine/delete Klong functions of 12 bodies (arity 0..3), call klong[name] with 0..3 arguments and "
         "name(a;b;c): each application must invoke the callable exactly once per application with exactly the evaluated arguments "
         "and return its value; the handle must follow redefinition, agree with the Klong call and reject a wrong argument count.",
    note="Trusted: TLC, the instrumented callables. Parameter orders other than x,y,z, .py/.pyf import remapping and handles after "
         "deletion are not judged.",
    design_ref="DESIGN.md section 5 C09")

CHECKS["C11"] = dict(
    technique="TLA+ definition of the round-trip value universe and of the match relation (RtAbs.tla, RtUniverse.tla, enumerated by TLC); "
              "every value is written with the real .w, read back with .rs and written again, written to a file channel and read back with .r, atoms go through x:$$x; the recorded "
              "(value, read-back, same text) observations are judged by TLC (RtTrace.tla)",
    text="Every value of the closed universe - integers to the 64-bit extremes, reals with exponents / -0.0 / largest and smallest double, "
         "characters and strings over quotes, blanks, newlines, tabs, brackets, braces, comment markers, symbols; each atom alone, as "
         "only and last list element, nested to depth 3, as dictionary value; 9 key kinds; dictionaries inside lists and dictionaries "
         "(thorough: all pairs of atoms) - must read back to a matching value that is written identically, and x:$$x must match x.",
    note="Trusted: TLC, construction of the Python objects from the universe. The written text itself is not prescribed (only that it reads "
         "back).",
    design_ref="DESIGN.md section 5 C11")

CHECKS["C12"] = dict(
    technique="TLA+ judgement of parse observations (ParseAbs.tla: work within a fixed polynomial Budget(n), identical second parse, variables "
              "untouched, same evaluation); ParseGen.tla enumerates all token strings (TLC); prog(text) of the real parser runs under "
              "sys.setprofile counting every call; the recorded observations are judged by TLC (ParseTrace.tla)",
    text="All strings of <= 2 tokens and a seeded sample (thorough: all) of 3-token strings over a 44-token alphabet - complete for strings "
         "starting with a parse-time function - plus single and double token-level edits of the 19609 lines of the .kg corpus (all single "
         "edits of lines with .comment/.module/conditionals) and generated inputs up to 7200 characters: prog(text) must return or raise "
         "within Budget(n) = 2000+400n+40n^2 calls, parse identically again in the same module, leave all variables unchanged, and (token "
         "strings) evaluate to the same result from either parse.",
    note="Trusted: TLC, sys.setprofile call counting (a loop that calls nothing is caught by the 6 s wall-clock backstop only). "
         "Strings of 4+ arbitrary tokens are covered only through corpus edits and generated inputs.",
    design_ref="DESIGN.md section 5 C12", category="exploration")

CHECKS["C06"] = dict(
    technique="TLA+ forward-mode (dual number) evaluator over the rationals (KgDual.tla), evaluated by TLC on every generated expression "
              "tree and point (KgDualCases.tla) to obtain the exact partial derivatives; every case rendered in each gradient form and "
              "executed under the NumPy (numeric) and PyTorch (autograd) backends, results compared with the exact derivative",
    text="Expression trees over + - * %, integer powers, negation, +/ reductions, indexing, each and vectors built from scalars (all trees "
         "of the small families plus seeded deeper ones) x integer and real points of dimension 2 and 3, a scalar parameter, two named "
         "parameters and a point aliased by a global the function reads; forms f:>p, p∇f, sym∇f, p∂g, .jacobian, loss:>[w b], "
         "loss:>[b w], [w b]∂g: |result - exact| <= 5e-5(1+|exact|) numerically, 5e-4(1+|exact|) for float32 autograd.",
    note="Trusted: TLC, the rendering of trees as Klong source, a Fraction-based size guard. Transcendental functions are outside the "
         "rational evaluator. Numeric ∇ under torch (float32) is an open finding bounded by 0.25 (1+|f(p)|) absolute error.",
    design_ref="DESIGN.md section 5 C06", category="exploration")

CHECKS["C07"] = dict(
    technique="TLA+ model of the gradient operators' probe protocol with fault injection (GradPurity.tla: bind the named parameter, call, "
              "restore in finally; the function fails at its k-th evaluation), model-checked by TLC (invariant Restored; for an unbounded number "
              "of probes the invariant is proved inductive with Apalache, GradPurityInd.tla) and used to emit "
              "the scenarios; each replayed under both backends with a failing probe; recorded snapshots of all globals judged by TLC "
              "with FrameAbs.tla (FrameTrace.tla)",
    text="15 gradient forms (incl. parameter lists that name a function; f:>p, f:>a, p∇f, a∇f, p∂g, a∂g, .jacobian, loss:>[w b], [b w], [w b w], [w w], [w b]∂g, [w w]∂g) x fault "
         "position k = 0..8 x fault kind (raise, non-scalar result, unknown name, none) x numpy/torch: after the operator returns or fails "
         "every global has its value, Python type, dtype and gradient-tracking flag of before, the context is as deep as before, and the "
         "differentiated function returns what it returned before.",
    note="Trusted: TLC, the probe callable, the snapshot function. Fault positions beyond the evaluations a backend makes do not fire "
         "(autograd evaluates once).",
    design_ref="DESIGN.md section 5 C07", category="fault_enumeration")

CHECKS["C08"] = dict(
    technique="KgEval.tla (reference semantics of the numeric core, evaluated by TLC on every generated program x binding) as oracle; "
              "every program executed by one interpreter per backend (numpy, torch cpu) and the two results compared with each other "
              "(shape, integer/real kind, elements to single precision, written forms read back)",
    text="175 programs of the numeric core grammar (quick; thorough ~900): all depth-1 families (12 dyads x 5 operand shapes, monads, 12 "
         "reductions/scans, take/drop/rotate/index/join, each), programs reading an operand twice, seeded deeper programs x 12 binding "
         "classes (integer, negative and real scalars, integer/real vectors and matrices, vector with scalar): whenever both backends "
         "return the values agree; programs of the compilable grammar must be accepted by both.",
    note="Trusted: TLC/KgEval (used to name the deviating backend), the comparison tolerance 2e-5. One-sided failures outside the compilable "
         "grammar are counted, not judged. Two open findings (negative integer exponents, kind of a single-row divide scan).",
    design_ref="DESIGN.md section 5 C08", category="exploration")

NOT_YET = {}


def main():
    props = [json.loads(l) for l in open(os.path.join(VERIF, "properties.jsonl"))]
    checks = []
    na = []
    for p in props:
        pid = p["id"]
        c = CHECKS.get(pid)
        if c is None:
            na.append({"property_id": pid, "reason": NOT_YET.get(pid, "check not built yet in this round (planned: DESIGN.md section 5)")})
            continue
        checks.append({
            "property_id": pid,
            "quick_cmd": f"./check {pid} --tier quick",
            "thorough_cmd": f"./check {pid} --tier thorough",
            "evidence_file": f"/verif/evidence/{pid}.json",
            "replay_cmd_template": f"./check {pid} --replay {{path}}",
            "engine": "tlc+replay",
            "level_claimed": {"category": c.get("category", "model_checking"), "text": c["text"],
                              "design_ref": c["design_ref"]},
            "level_note": c["note"],
            "technique": c["technique"],
        })
    man = {
        "version": 1,
        "setup_cmd": "./check setup",
        "hooks": {"guard": "KLONGPY_VERIF", "enable": "export KLONGPY_VERIF=1 (set by ./check); no source hooks are "
                  "needed so far: all observation is by attribute assignment / interposition from the harness",
                  "baseline_off_cmd": BASELINE, "source_commits": [], "add_only": True},
        "engines": [{"name": "tlc+replay", "path": "/verif/check",
                     "serves_properties": [c["property_id"] for c in checks],
                     "kind_free_text": "explicit TLA+ specifications checked by TLC; behaviours replayed into the real "
                                       "code; recorded traces validated by TLC"}],
        "checks": checks,
        "not_applicable": na,
        "notes": "fix: commits in /repo are listed in known_findings.json (status fixed). See DESIGN.md.",
    }
    with open(os.path.join(VERIF, "MANIFEST.json"), "w") as f:
        json.dump(man, f, indent=1)


if __name__ == "__main__":
    main()
