"""Re-run the stored seeded changes: python harness/selftest.py [Cnn | Cnn-V ...] [--tier quick]

For every /verif/seeded/<Cnn>-<V>/patch.diff (optionally restricted to the given properties) a scratch worktree of /repo's HEAD
is created under /tmp, the patch is applied, the property's check is run against it (KLVERIF_REPO, evidence redirected to a scratch
directory) and the worktree is removed.  Prints one line per seed: detected / NOT detected / patch does not apply.
Exit status 0 iff every seed whose meta.json says "detected": true is detected again.
"""
import glob
import json
import os
import subprocess
import sys
import tempfile

VERIF = os.path.dirname(os.path.dirname(os.path.abspath(__file__)))
REPO = os.environ.get("KLVERIF_REPO", "/repo")


def sh(cmd, **kw):
    return subprocess.run(cmd, shell=True, stdout=subprocess.PIPE, stderr=subprocess.STDOUT, text=True, **kw)


def main():
    args = [a for a in sys.argv[1:] if not a.startswith("--")]
    tier = sys.argv[sys.argv.index("--tier") + 1] if "--tier" in sys.argv else "quick"
    bad = 0
    for d in sorted(glob.glob(os.path.join(VERIF, "seeded", "C*-*"))):
        name = os.path.basename(d)
        prop = name.split("-")[0]
        if args and prop not in args and name not in args:
            continue
        with open(os.path.join(d, "meta.json")) as f:
            meta = json.load(f)
        if meta.get("no_longer_breaks_property"):
            print(f"{name}: skipped - since {meta['no_longer_breaks_property']['since']} this change no longer breaks the property")
            continue
        wt = tempfile.mkdtemp(prefix=f"selftest-{name}-", dir="/tmp")
        os.rmdir(wt)
        evd = tempfile.mkdtemp(prefix="selftest-ev-", dir="/tmp")
        try:
            r = sh(f"git -C {REPO} worktree add --detach {wt} HEAD")
            if r.returncode:
                print(f"{name}: cannot create worktree: {r.stdout[-200:]}")
                bad += 1
                continue
            # patch_rebased.diff: the same change ported by hand onto a tree in which a later fix: commit touched the same lines
            pf = os.path.join(d, "patch_rebased.diff") if os.path.exists(os.path.join(d, "patch_rebased.diff")) else os.path.join(d, "patch.diff")
            a = sh(f"git -C {wt} apply {pf}")
            if a.returncode:
                print(f"{name}: patch does not apply to the current tree ({a.stdout.strip()[:120]})")
                continue
            c = sh(f"cd {VERIF} && KLVERIF_EVIDENCE_DIR={evd} KLVERIF_REPO={wt} ./check {prop} --tier {tier}", timeout=7200)
            detected = c.returncode == 1 and "VIOLATION property=" in c.stdout
            first = next((l for l in c.stdout.splitlines() if l.startswith("  ")), "").strip()[:160]
            print(f"{name}: {'detected' if detected else 'NOT detected (rc=%d)' % c.returncode}  {first}", flush=True)
            if meta.get("detected") and not detected:
                bad += 1
        finally:
            sh(f"git -C {REPO} worktree remove --force {wt}")
            sh(f"rm -rf {evd}")
    return 1 if bad else 0


if __name__ == "__main__":
    sys.exit(main())
