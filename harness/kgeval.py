"""TLC as evaluator of the reference semantics (spec/kg/KgEval.tla) over generated programs, and rendering of the
JSON AST as Klong source."""
import json
import os

import canon
import common
from common import run_tlc, stage_spec, MachineryError

KG_MODULES = ["kg/KgValues.tla", "kg/KgVerbs.tla", "kg/KgAdverbs.tla", "kg/KgEval.tla", "kg/KgEvalCases.tla"]
ADVSYM = {"over": "/", "scan": "\\", "each": "'", "eachpair": ":'"}
LAMTXT = {"dbl": "{x*2}", "neg": "{0-x}", "dec": "{x-1}", "cnt": "{#x}", "pym": "{x+10}"}


def tlc_eval(cases, ev=None, label="KgEvalCases.tla"):
    """cases: list of {"id", "ast", "env"} -> {id: (ok, value)}"""
    d = stage_spec(*KG_MODULES)
    cf = os.path.join(d, "cases.json")
    with open(cf, "w") as f:
        json.dump(cases, f)
    cfg = os.path.join(d, "e.cfg")
    with open(cfg, "w") as f:
        f.write("INIT Init\nNEXT Next\nCHECK_DEADLOCK FALSE\n")
    out = {}
    todo = list(cases)
    overflow = 0
    while todo:
        with open(cf, "w") as f:
            json.dump(todo, f)
        r = run_tlc(os.path.join(d, "KgEvalCases.tla"), cfg, workers=1, extra_env={"CASE_FILE": cf}, timeout=7200, tolerate_overflow=True)
        if ev is not None:
            ev.add_tlc(label, r, "TLC evaluates KgEval.tla on every generated program (one state per program)")
        seen = set()
        for p in r.prints:
            if isinstance(p, dict) and "id" in p:
                out[p["id"]] = (bool(p["ok"]), p["val"])
                seen.add(p["id"])
        done = len(seen)                       # (TLC may evaluate a PrintT twice)
        if not getattr(r, "overflow", False):
            break
        # cases are evaluated in order: the first one without a result left TLC's integer range - outside the domain
        if done >= len(todo):
            break
        out[todo[done]["id"]] = (False, {"t": "e", "v": 0, "why": "integer overflow in TLC"})
        overflow += 1
        todo = todo[done + 1:]
        if overflow > 200:
            raise MachineryError("more than 200 programs overflow TLC's integers")
    if len(out) != len(cases):
        raise MachineryError(f"TLC evaluated {len(out)} of {len(cases)} programs")
    return out


def lit(v):
    return {"k": "lit", "v": v}


def var(n):
    return {"k": "var", "n": n}


def I(n):
    return {"t": "i", "v": n}


def R(n, d):
    return {"t": "r", "v": [n, d]}


def L(*xs):
    return {"t": "l", "v": list(xs)}


def S(s):
    return {"t": "s", "v": [ord(c) for c in s]}


def render_ast(e):
    k = e["k"]
    if k == "lit":
        return canon.render(e["v"])
    if k == "var":
        return e["n"]
    if k == "mo":
        return f"{e['op']}({render_ast(e['a'])})"
    if k == "dy":
        return f"({render_ast(e['a'])}){e['op']}({render_ast(e['b'])})"
    if k == "ad":
        return f"{e['op']}{ADVSYM[e['adv']]}({render_ast(e['a'])})"
    if k == "ad2":
        return f"({render_ast(e['a'])}){e['op']}{ADVSYM[e['adv']]}({render_ast(e['b'])})"
    if k == "eachl":
        return f"{LAMTXT[e['lam']]}'({render_ast(e['a'])})"
    if k == "cond":
        return f":[{render_ast(e['c'])};{render_ast(e['t'])};{render_ast(e['e'])}]"
    raise ValueError(k)


def vars_of(e):
    if e["k"] == "var":
        return {e["n"]}
    out = set()
    for key in ("a", "b", "c", "t", "e"):
        if key in e and isinstance(e[key], dict):
            out |= vars_of(e[key])
    return out
