"""Evaluate a seeded defect: python seedeval.py <Cnn> <variant> <seed dir> [--tier quick] [--notests]
Confirms (in a scratch worktree of /repo, removed afterwards): the demo passes on the clean tree and fails with the
patch, the repository's test-suite still passes with the patch, and runs ./check <Cnn> against the patched tree.
Writes /verif/seeded/<Cnn>-<variant>/{patch.diff, demo.py, meta.json}."""
import json
import os
import shutil
import subprocess
import sys
import time

VERIF = os.path.dirname(os.path.dirname(os.path.abspath(__file__)))


def sh(cmd, **kw):
    return subprocess.run(cmd, shell=True, stdout=subprocess.PIPE, stderr=subprocess.STDOUT, text=True, **kw)


def main():
    prop, variant, seed = sys.argv[1], sys.argv[2], sys.argv[3]
    tier = "quick"
    if "--tier" in sys.argv:
        tier = sys.argv[sys.argv.index("--tier") + 1]
    notests = "--notests" in sys.argv
    store_as = sys.argv[sys.argv.index("--as") + 1] if "--as" in sys.argv else variant
    patch = os.path.join(seed, f"patch_{variant}.diff")
    demo = os.path.join(seed, f"demo_{variant}.py")
    wt = f"/tmp/se-{prop}-{variant}-{os.getpid()}"
    sh(f"git -C /repo worktree remove --force {wt}")
    r = sh(f"git -C /repo worktree add -q {wt} HEAD")
    meta = {"property": prop, "variant": variant, "source": "independent sub-agent given only the property text"}
    try:
        r = sh(f"git -C {wt} apply {patch}")
        if r.returncode != 0:
            meta["error"] = "patch does not apply: " + r.stdout[-400:]
            print(json.dumps(meta, indent=1))
            return 2
        meta["files_touched"] = sh(f"git -C {wt} diff --stat").stdout.strip().splitlines()
        clean = sh(f"cd /tmp && PYTHONPATH=/repo /venv/bin/python -W ignore {demo} /repo", timeout=600)
        pat = sh(f"cd /tmp && PYTHONPATH={wt} /venv/bin/python -W ignore {demo} {wt}", timeout=600)
        meta["demo_clean_rc"] = clean.returncode
        meta["demo_patched_rc"] = pat.returncode
        meta["demo_patched_tail"] = pat.stdout[-600:]
        if not notests:
            t0 = time.time()
            t = sh(f"cd {wt} && env -u KLONGPY_VERIF PYTHONPATH={wt} /venv/bin/python -m pytest -q -p no:cacheprovider --timeout=900 -rf 2>&1 | tail -8",
                   timeout=1800)
            meta["tests_with_patch"] = t.stdout.strip().splitlines()[-1:] + [f"{time.time() - t0:.0f}s"]
            failed = [l.split()[1] for l in t.stdout.splitlines() if l.startswith("FAILED ")]
            # two wall-clock tests of the repository are flaky under machine load (also on the unmodified tree): rerun them alone
            flaky = ("tests/test_cli_exit.py::TestCliExit::test_exit_from_file", "tests/test_sys_fn_timer.py::TestSysFnTimer::test_timer_return_1_cancel")
            still = []
            for f in failed:
                ok = False
                if f.split(" ")[0] in flaky:
                    for _ in range(3):
                        r1 = sh(f"cd {wt} && env -u KLONGPY_VERIF PYTHONPATH={wt} /venv/bin/python -m pytest -q -p no:cacheprovider --timeout=900 '{f}' 2>&1 | tail -2", timeout=600)
                        if " passed" in r1.stdout and " failed" not in r1.stdout:
                            ok = True
                            break
                if not ok:
                    still.append(f)
            meta["tests_failed_first_run"] = failed
            meta["tests_pass"] = not still and ((" passed" in t.stdout) or bool(failed))
        t0 = time.time()
        c = sh(f"cd {VERIF} && KLVERIF_EVIDENCE_DIR=/tmp/se-evidence KLVERIF_REPO={wt} ./check {prop} --tier {tier}", timeout=7200)
        meta["check_cmd"] = f"KLVERIF_REPO=<patched worktree> ./check {prop} --tier {tier}"
        meta["check_rc"] = c.returncode
        meta["check_wall_s"] = round(time.time() - t0)
        lines = [l for l in c.stdout.splitlines() if l.startswith(("VIOLATION", "  ", "KNOWN-FINDING", "SPEC-DRIFT", "MACHINERY"))]
        meta["check_output_head"] = lines[:8]
        meta["detected"] = c.returncode == 1 and any(l.startswith("VIOLATION") for l in c.stdout.splitlines())
        out = os.path.join(VERIF, "seeded", f"{prop}-{store_as}")
        os.makedirs(out, exist_ok=True)
        shutil.copy(patch, os.path.join(out, "patch.diff"))
        shutil.copy(demo, os.path.join(out, "demo.py"))
        notes = os.path.join(seed, "notes.md")
        if os.path.exists(notes):
            shutil.copy(notes, os.path.join(out, "notes_from_author.md"))
        with open(os.path.join(out, "meta.json"), "w") as f:
            json.dump(meta, f, indent=1)
        print(json.dumps({k: meta[k] for k in meta if k not in ("demo_patched_tail",)}, indent=1))
    finally:
        sh(f"git -C /repo worktree remove --force {wt}")
    # restore the evidence of the unchanged tree is the caller's job (re-run ./check)
    return 0


if __name__ == "__main__":
    sys.exit(main())
