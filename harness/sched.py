"""Deterministic thread scheduler + interposition objects for the real FileCache.

Every controlled thread (client threads created by the driver, worker tasks created by the interposed
executor) blocks at each yield point until the driver grants it the next segment.  Exactly one controlled
thread runs at any time, so the interleaving executed is the interleaving the behaviour prescribes.
Yield points coincide with the labels of spec/store/FileCache.tla.
"""
import builtins
import os as _os
import threading


class Blocked(Exception):
    pass


class Sched:
    def __init__(self, timeout=20.0):
        self.cv = threading.Condition()
        self.state = {}       # name -> "new" | "at:<label>" | "running" | "done"
        self.label = {}       # name -> label of the yield point the thread is parked at
        self.granted = None
        self.timeout = timeout
        self.local = threading.local()
        self.order = []       # creation order of threads
        self.errors = {}

    # -- called by controlled threads ------------------------------------------------------------
    def me(self):
        return getattr(self.local, "name", None)

    def yield_point(self, label):
        name = self.me()
        if name is None:          # not a controlled thread (e.g. the driver itself): no scheduling
            return
        with self.cv:
            self.state[name] = "parked"
            self.label[name] = label
            if self.granted == name:
                self.granted = None
            self.cv.notify_all()
            ok = self.cv.wait_for(lambda: self.granted == name, timeout=self.timeout * 50)
            if not ok:
                raise Blocked(f"{name} never granted at {label}")
            self.state[name] = "running"

    def _body(self, name, fn):
        self.local.name = name
        try:
            self.yield_point("start")
            fn()
        except BaseException as e:   # noqa
            self.errors[name] = e
        finally:
            with self.cv:
                self.state[name] = "done"
                self.label[name] = "done"
                if self.granted == name:
                    self.granted = None
                self.cv.notify_all()

    # -- called by the driver --------------------------------------------------------------------------
    def spawn(self, name, fn):
        with self.cv:
            self.state[name] = "new"
            self.label[name] = "new"
            self.order.append(name)
        t = threading.Thread(target=self._body, args=(name, fn), daemon=True, name=name)
        t.start()
        with self.cv:
            if not self.cv.wait_for(lambda: self.state[name] in ("parked", "done"), timeout=self.timeout):
                raise Blocked(f"{name} did not reach its start gate")
        return t

    def grant(self, name):
        """Let `name` run one segment: until its next yield point or its end."""
        with self.cv:
            if self.state.get(name) != "parked":
                raise Blocked(f"{name} is not parked ({self.state.get(name)})")
            self.granted = name
            self.state[name] = "running"
            self.cv.notify_all()
            if not self.cv.wait_for(lambda: self.state[name] in ("parked", "done"), timeout=self.timeout):
                raise Blocked(f"{name} did not come back (deadlock inside the code under test?)")
        return self.label[name]

    def where(self, name):
        with self.cv:
            return self.label.get(name)

    def parked(self):
        with self.cv:
            return [n for n in self.order if self.state[n] == "parked"]

    def alive(self):
        with self.cv:
            return [n for n in self.order if self.state[n] != "done"]


class SchedLock:
    """Replacement for FileCache.file_futures_lock: a yield point in front of every critical section."""

    def __init__(self, sched):
        self.sched = sched
        self._lock = threading.Lock()
        self.owner = None

    def __enter__(self):
        self.sched.yield_point("lock")
        # one controlled thread runs at a time, so the lock can only be contended if a thread parked while
        # holding it; in that case report instead of dead-locking the harness
        if not self._lock.acquire(timeout=self.sched.timeout):
            raise Blocked("lock held across a yield point")
        self.owner = self.sched.me()
        return self

    def __exit__(self, *a):
        self.owner = None
        self._lock.release()

    def acquire(self, *a, **k):
        self.__enter__()
        return True

    def release(self):
        self.__exit__()

    def locked(self):
        return self._lock.locked()


class SchedFuture:
    def __init__(self, sched, idx):
        self.sched, self.idx = sched, idx
        self._done = False
        self._res = None
        self._exc = None

    def done(self):
        return self._done

    def result(self, timeout=None):
        while True:
            self.sched.yield_point("wait")
            if self._done:
                break
        if self._exc is not None:
            raise self._exc
        return self._res


class SchedExecutor:
    """Replacement for FileCache.executor: every submitted task is a controlled thread 't<k>'."""

    def __init__(self, sched):
        self.sched = sched
        self.futures = []
        self.pending_spawn = []

    def submit(self, fn, *args, **kw):
        idx = len(self.futures) + 1
        fut = SchedFuture(self.sched, idx)
        self.futures.append(fut)

        def run():
            try:
                fut._res = fn(*args, **kw)
            except BaseException as e:   # noqa
                fut._exc = e
            finally:
                fut._done = True
        # the thread must be created by the driver thread (spawn waits on the condition variable and the
        # submitting thread is itself controlled): queue it, the driver starts it after this segment
        self.pending_spawn.append((f"t{idx}", run))
        return fut

    def shutdown(self, *a, **k):
        pass


class OsPathProxy:
    def __init__(self, sched):
        self._sched = sched

    def exists(self, p):
        self._sched.yield_point("exists")
        return _os.path.exists(p)

    def getsize(self, p):
        self._sched.yield_point("getsize")
        return _os.path.getsize(p)

    def __getattr__(self, n):
        return getattr(_os.path, n)


class OsProxy:
    """Stands in for the `os` module global of klongpy.db.file_cache."""

    def __init__(self, sched, fslog=None):
        self._sched = sched
        self.path = OsPathProxy(sched)
        self._fslog = fslog

    def makedirs(self, p, exist_ok=False):
        self._sched.yield_point("open_w")      # w_open = makedirs + open('wb')
        return _os.makedirs(p, exist_ok=exist_ok)

    def fsync(self, fd):
        return _os.fsync(fd)

    def __getattr__(self, n):
        return getattr(_os, n)


class WFile:
    """File object returned for mode 'wb': the first write is a yield point (w_write)."""

    def __init__(self, sched, f):
        self._sched, self._f, self._first = sched, f, True

    def write(self, data):
        if self._first:
            self._first = False
            self._sched.yield_point("write")
        return self._f.write(data)

    def fileno(self):
        return self._f.fileno()

    def flush(self):
        return self._f.flush()

    def __enter__(self):
        return self

    def __exit__(self, *a):
        self._f.close()
        return False

    def close(self):
        self._f.close()


def make_open(sched):
    def sched_open(path, mode="r", *a, **k):
        if "w" in mode:
            f = builtins.open(path, mode, *a, **k)      # makedirs already yielded (w_open)
            return WFile(sched, f)
        sched.yield_point("read")
        return builtins.open(path, mode, *a, **k)
    return sched_open
