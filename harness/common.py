"""Shared infrastructure: scratch space, TLC runner, evidence, known findings, verdict plumbing."""
import atexit
import hashlib
import json
import os
import re
import shutil
import subprocess
import sys
import tempfile
import time

VERIF = os.path.dirname(os.path.dirname(os.path.abspath(__file__)))
SPEC = os.path.join(VERIF, "spec")
REPO = os.environ.get("KLVERIF_REPO", "/repo")
TLA_JAR = "/opt/veriftools/tla/tla2tools.jar"
TLA_CP = TLA_JAR + ":/opt/veriftools/tla/CommunityModules-deps.jar"

_scratch = None


class MachineryError(Exception):
    """The check itself could not run (TLC crash, unparsable output, ...): exit code 2."""


def scratch():
    global _scratch
    if _scratch is None:
        _scratch = tempfile.mkdtemp(prefix="klverif-")
        atexit.register(lambda: shutil.rmtree(_scratch, ignore_errors=True))
    return _scratch


def subscratch(name):
    d = os.path.join(scratch(), name)
    os.makedirs(d, exist_ok=True)
    return d


def use_repo():
    """Make `import klongpy` resolve to the tree under test (working tree of REPO)."""
    if REPO not in sys.path or sys.path[0] != REPO:
        sys.path.insert(0, REPO)
    import klongpy  # noqa
    got = os.path.dirname(os.path.dirname(os.path.abspath(klongpy.__file__)))
    if os.path.realpath(got) != os.path.realpath(REPO):
        raise MachineryError(f"klongpy imported from {got}, expected {REPO}")
    return klongpy


# ------------------------------------------------------------------------------------- TLC

class TlcResult:
    def __init__(self):
        self.rc = None
        self.out = ""
        self.generated = 0
        self.distinct = 0
        self.depth = 0
        self.violated = None      # name of violated invariant / property, or None
        self.error = None         # other TLC error text
        self.prints = []          # lines printed by PrintT that are JSON strings (decoded)
        self.coverage = {}        # action name -> (distinct, total)
        self.wall = 0.0
        self.cex = None           # raw counterexample text


_STATS = re.compile(r"(\d+) states generated, (\d+) distinct states found")
_DEPTH = re.compile(r"The depth of the complete state graph search is (\d+)")
_COV = re.compile(r"^<(\w+) line (\d+), col (\d+) to line (\d+), col (\d+) of module (\w+)>: (\d+):(\d+)")
_SIMSTAT = re.compile(r"The number of states generated: (\d+)")


def run_tlc(module_path, cfg_path, *, workers=16, simulate=None, depth=None, seed=None,
            coverage=False, extra_env=None, timeout=3600, deadlock=None, java_opts=None,
            dfid=None, want_prints=True, extra_args=None, tolerate_overflow=False):
    """Run TLC on module_path with cfg_path. Returns TlcResult. Raises MachineryError on crashes."""
    meta = tempfile.mkdtemp(prefix="tlcmeta-", dir=scratch())
    cmd = ["java", "-XX:+UseParallelGC", "-Xmx8g", "-Djava.io.tmpdir=" + meta]   # TLC's own temporary directories go with the scratch
    if java_opts:
        cmd += java_opts
    cmd += ["-cp", TLA_CP, "tlc2.TLC", "-workers", str(workers), "-metadir", meta,
            "-noGenerateSpecTE", "-config", cfg_path]
    if simulate is not None:
        cmd += ["-simulate", simulate]
        if depth is not None:
            cmd += ["-depth", str(depth)]
    if seed is not None:
        cmd += ["-seed", str(seed)]
    if coverage:
        cmd += ["-coverage", "1"]
    if deadlock is False:
        cmd += ["-deadlock"]
    if dfid is not None:
        cmd += ["-dfid", str(dfid)]
    if extra_args:
        cmd += extra_args
    cmd.append(module_path)
    env = dict(os.environ)
    if extra_env:
        env.update(extra_env)
    t0 = time.time()
    try:
        p = subprocess.run(cmd, cwd=os.path.dirname(module_path), env=env, stdout=subprocess.PIPE,
                           stderr=subprocess.STDOUT, timeout=timeout, text=True, errors="replace")
        out, rc = p.stdout, p.returncode
    except subprocess.TimeoutExpired as e:
        out = (e.stdout or b"").decode("utf8", "replace") if isinstance(e.stdout, bytes) else (e.stdout or "")
        raise MachineryError(f"TLC timed out after {timeout}s on {module_path}\n{out[-2000:]}")
    finally:
        shutil.rmtree(meta, ignore_errors=True)
    r = TlcResult()
    r.rc, r.out, r.wall = rc, out, time.time() - t0
    for line in out.splitlines():
        m = _STATS.search(line)
        if m:
            r.generated, r.distinct = int(m.group(1)), int(m.group(2))
        m = _DEPTH.search(line)
        if m:
            r.depth = int(m.group(1))
        m = _SIMSTAT.search(line)
        if m and r.generated == 0:
            r.generated = int(m.group(1))
        m = _COV.match(line)
        if m:
            r.coverage[m.group(1)] = (int(m.group(7)), int(m.group(8)))
        if want_prints and line.startswith('"') and line.endswith('"') and len(line) > 1:
            try:
                r.prints.append(json.loads(json.loads(line)))
            except Exception:
                pass
    m = re.search(r"Error: Invariant (\w+) is violated", out)
    if m:
        r.violated = m.group(1)
    m2 = re.search(r"Error: Action property (\w+) is violated", out) or \
        re.search(r"Error: Temporal properties were violated", out)
    if m2 and r.violated is None:
        r.violated = m2.group(1) if m2.groups() else "temporal"
    if "Error: Deadlock reached" in out and r.violated is None:
        r.violated = "Deadlock"
    if r.violated:
        i = out.find("Error:")
        r.cex = out[i:i + 20000]
    elif tolerate_overflow and "Error: Overflow when computing" in out:
        r.overflow = True                     # the evaluator left TLC's 32-bit integers: the caller skips that case
    elif rc != 0 or "Error:" in out:
        i = out.find("Error:")
        r.error = out[i:i + 4000] if i >= 0 else out[-4000:]
        raise MachineryError(f"TLC failed (rc={rc}) on {os.path.basename(module_path)} / "
                             f"{os.path.basename(cfg_path)}:\n{r.error}")
    return r


def sany(module_path):
    p = subprocess.run(["java", "-cp", TLA_CP, "tla2sany.SANY", module_path],
                       cwd=os.path.dirname(module_path), stdout=subprocess.PIPE,
                       stderr=subprocess.STDOUT, text=True)
    ok = p.returncode == 0 and "Semantic errors" not in p.stdout and "Parse Error" not in p.stdout \
        and "Fatal errors" not in p.stdout and "*** Errors" not in p.stdout
    return ok, p.stdout


def write_cfg(path, *, init=None, next_=None, spec=None, constants=None, invariants=(), properties=(),
              constraints=(), action_constraints=(), view=None, postcondition=None, deadlock=None,
              symmetry=None):
    lines = []
    if spec:
        lines.append(f"SPECIFICATION {spec}")
    else:
        lines.append(f"INIT {init}")
        lines.append(f"NEXT {next_}")
    if constants:
        lines.append("CONSTANTS")
        for k, v in constants.items():
            lines.append(f"  {k} = {tla_value(v)}" if not (isinstance(v, str) and v.startswith("<-"))
                         else f"  {k} {v}")
    for i in invariants:
        lines.append(f"INVARIANT {i}")
    for p in properties:
        lines.append(f"PROPERTY {p}")
    for c in constraints:
        lines.append(f"CONSTRAINT {c}")
    for c in action_constraints:
        lines.append(f"ACTION_CONSTRAINT {c}")
    if view:
        lines.append(f"VIEW {view}")
    if postcondition:
        lines.append(f"POSTCONDITION {postcondition}")
    if symmetry:
        lines.append(f"SYMMETRY {symmetry}")
    if deadlock is not None:
        lines.append(f"CHECK_DEADLOCK {'TRUE' if deadlock else 'FALSE'}")
    with open(path, "w") as f:
        f.write("\n".join(lines) + "\n")
    return path


class Raw(str):
    """A literal TLA+ expression for cfg files."""


def tla_value(v):
    if isinstance(v, Raw):
        return str(v)
    if isinstance(v, bool):
        return "TRUE" if v else "FALSE"
    if isinstance(v, int):
        return str(v)
    if isinstance(v, str):
        return '"' + v.replace("\\", "\\\\").replace('"', '\\"') + '"'
    if isinstance(v, (list, tuple)):
        return "<<" + ", ".join(tla_value(x) for x in v) + ">>"
    if isinstance(v, (set, frozenset)):
        return "{" + ", ".join(tla_value(x) for x in sorted(v, key=repr)) + "}"
    if isinstance(v, dict):
        return "[" + ", ".join(f"{k} |-> {tla_value(x)}" for k, x in v.items()) + "]"
    raise TypeError(v)


def stage_spec(*relpaths, into=None):
    """Copy spec modules into a scratch directory (so TLC's side files never land in /verif)."""
    d = into or tempfile.mkdtemp(prefix="spec-", dir=scratch())
    for rp in relpaths:
        src = os.path.join(SPEC, rp)
        shutil.copy(src, os.path.join(d, os.path.basename(rp)))
    return d


# -------------------------------------------------------------------------------- findings

def load_findings(prop):
    path = os.path.join(VERIF, "known_findings.json")
    if not os.path.exists(path):
        return []
    with open(path) as f:
        data = json.load(f)
    return [x for x in data.get("findings", []) if x.get("property") == prop]


# -------------------------------------------------------------------------------- evidence

class Evidence:
    def __init__(self, prop, tier, seed, level=None):
        if level is None:                      # the level recorded in the evidence is the one claimed in MANIFEST.json
            level = "model_checking"
            try:
                with open(os.path.join(VERIF, "MANIFEST.json")) as f:
                    for c in json.load(f).get("checks", []):
                        if c.get("property_id") == prop:
                            level = c["level_claimed"]["category"]
            except Exception:   # noqa
                pass
        self.prop, self.tier, self.seed, self.level = prop, tier, seed, level
        self.t0 = time.time()
        self.cov = {"states": 0, "transitions": 0, "traces_validated_against_impl": 0,
                    "samples": [], "evaluations": 0, "distinct_nontrivial": 0, "rule": "",
                    "tlc_runs": [], "checker_cmd": ""}
        self.assumptions = []
        self.violations = 0
        self.known = 0

    def add_tlc(self, name, r, note=""):
        self.cov["states"] += r.distinct
        self.cov["transitions"] += r.generated
        self.cov["tlc_runs"].append({"name": name, "distinct_states": r.distinct,
                                     "states_generated": r.generated, "depth": r.depth,
                                     "wall_s": round(r.wall, 2), "note": note,
                                     "actions_covered": {k: v[1] for k, v in sorted(r.coverage.items())}
                                     if r.coverage else {}})

    def sample(self, s, cap=6):
        if len(self.cov["samples"]) < cap:
            self.cov["samples"].append(s)

    def write(self):
        evdir = os.environ.get("KLVERIF_EVIDENCE_DIR") or os.path.join(VERIF, "evidence")
        os.makedirs(evdir, exist_ok=True)
        doc = {"property_id": self.prop, "tier": self.tier, "seed": int(self.seed), "level": self.level,
               "coverage": self.cov, "assumptions": self.assumptions,
               "wall_s": round(time.time() - self.t0, 2), "violations": self.violations,
               "known_findings_matched": self.known}
        path = os.path.join(evdir, f"{self.prop}.json")
        tmp = path + ".tmp"
        with open(tmp, "w") as f:
            json.dump(doc, f, indent=1, default=str)
        os.replace(tmp, path)
        return path


# --------------------------------------------------------------------------------- verdicts

class Verdicts:
    """Collects violations, separates known findings, writes replay files, prints the protocol lines."""

    def __init__(self, prop, ev):
        self.prop, self.ev = prop, ev
        self.findings = load_findings(prop)
        self.new = []          # (case, replay path)
        self.known_hits = {}   # finding id -> count
        self.printed = set()

    def violation(self, case, matcher=None):
        """case: JSON-able dict describing the failing input/history incl. 'what'.
        matcher(finding, case) -> bool decides whether a listed open finding covers it."""
        for f in self.findings:
            if f.get("status") != "open":
                continue
            if matcher is not None and matcher(f, case):
                self.known_hits[f["id"]] = self.known_hits.get(f["id"], 0) + 1
                if f["id"] not in self.printed:
                    self.printed.add(f["id"])
                    print(f"KNOWN-FINDING: property={self.prop} {f['id']}: {f.get('what', '')}")
                return False
        os.makedirs(os.path.join(VERIF, "replays"), exist_ok=True)
        blob = json.dumps(case, sort_keys=True, default=str)
        h = hashlib.sha1(blob.encode()).hexdigest()[:12]
        path = os.path.join(VERIF, "replays", f"{self.prop}-{h}.json")
        with open(path, "w") as f:
            f.write(json.dumps({"property": self.prop, "case": case}, indent=1, default=str))
        if len(self.new) < 25:
            print(f"VIOLATION property={self.prop} replay={path}")
            print("  " + (case.get("what") or "")[:400])
        self.new.append((case, path))
        return True

    def finish(self):
        self.ev.violations = len(self.new)
        self.ev.known = sum(self.known_hits.values())
        self.ev.cov["known_findings"] = self.known_hits
        self.ev.write()
        return 1 if self.new else 0


class Spinning(BaseException):
    """the code under test did not give control back within the deadline (a busy loop inside one step)"""


class deadline:
    """with deadline(20): ...   raises Spinning in the main thread after that many seconds of wall-clock time (SIGALRM)"""
    def __init__(self, seconds):
        self.seconds = seconds
        self.fired = False          # stays set even if the code under test (or asyncio's task machinery) swallows Spinning

    def __enter__(self):
        import signal

        def fire(signum, frame):
            self.fired = True
            raise Spinning()
        self.old = signal.signal(signal.SIGALRM, fire)
        signal.setitimer(signal.ITIMER_REAL, self.seconds)
        return self

    def __exit__(self, *a):
        import signal
        signal.setitimer(signal.ITIMER_REAL, 0)
        signal.signal(signal.SIGALRM, self.old)
        return False


def jhash(x):
    return hashlib.sha1(json.dumps(x, sort_keys=True, default=str).encode()).hexdigest()[:16]
